"""C15 -- builds are reproducible and the optimizing compiler reproduces itself.

Every nondeterminism source of a compilation is owned and ENUMERATED: the hash seeds of every Rust
process involved (LD_PRELOAD shim over getrandom/getentropy, VERIF_HASH_SEED = 0..K-1, inherited by the
code generators and the linker), the working directory, the output directory's neighbours, address-space
randomisation, and concurrency.  For every program x code generator x artefact kind (package, assembly,
executable) the complete product  seeds x environment variants  is built and all results must be
byte-identical.  The bootstrap chain stage1 (baseline-built) -> stage2 -> stage3 is built for every seed
and with two different first-stage builders; stage2 and stage3 must be identical.
"""
import hashlib
import json
import os
import shutil
import subprocess
import sys
import threading

import vcommon
sys.path.insert(0, os.path.join(vcommon.VERIF, "engines", "progspace"))
import core  # noqa: E402
import corpus  # noqa: E402

SHIM_SRC = os.path.join(vcommon.VERIF, "engines", "common", "shim", "getrandom_shim.c")

# environment variants: (name, cwd kind, neighbours in the output dir, ASLR on)
VARIANTS = [
    ("base", "root", 0, True),
    ("cwd-short", "a", 0, True),
    ("cwd-deep", "deep", 0, True),
    ("neighbours", "root", 60, True),
    ("no-aslr", "root", 0, False),
]


def build_shim():
    out = os.path.join(vcommon.BUILD, "getrandom_shim.so")
    with vcommon.Lock("shim"):
        if not os.path.exists(out) or os.path.getmtime(out) < os.path.getmtime(SHIM_SRC):
            vcommon.run(["gcc", "-O2", "-shared", "-fPIC", "-o", out + ".tmp", SHIM_SRC, "-ldl"], check=True)
            os.replace(out + ".tmp", out)
    return out


def sha(path):
    h = hashlib.sha256()
    with open(path, "rb") as f:
        for chunk in iter(lambda: f.read(1 << 20), b""):
            h.update(chunk)
    return h.hexdigest()


# ------------------------------------------------------------------------------------------------
# programs

MULTI_MAIN = """use std::string::Stringable;
extern package aa;
extern package bb;
extern package cc;
extern package dd;
extern package ee;
use aa::f_aa;
use bb::f_bb;
use cc::f_cc;
use dd::f_dd;
use ee::f_ee;

fn main() {
    println((f_aa(1) + f_bb(2) + f_cc(3) + f_dd(4) + f_ee(5)).to_string());
}
"""


def lib_source(name, k):
    return ("pub fn f_%s(x: Int64): Int64 { helper_%s(x) * %di64 }\n"
            "fn helper_%s(x: Int64): Int64 { x + %di64 }\n"
            "pub class C_%s { pub v: Int64 }\n"
            "impl C_%s { pub fn get(): Int64 { self.v } }\n" % (name, name, k + 2, name, k, name, name))


RICH = """use std::collections::HashMap;
use std::string::Stringable;

trait Shape { fn area(): Int64; fn name(): String; }
class Sq { s: Int64 }
class Rc { w: Int64, h: Int64 }
impl Shape for Sq { fn area(): Int64 { self.s * self.s } fn name(): String { "sq" } }
impl Shape for Rc { fn area(): Int64 { self.w * self.h } fn name(): String { "rc" } }
struct P { x: Int64, y: Float64 }
enum E { A, B(Int64), C(String, Bool) }
fn id[T](x: T): T { x }
fn apply(f: (Int64): Int64, v: Int64): Int64 { f(v) }
fn describe(e: E): String {
    match e { E::A => "a", E::B(n) => "b${n}", E::C(s, b) => "c${s}${b}" }
}
fn main() {
    let shapes: Vec[Shape] = Vec[Shape]::new();
    shapes.push(Sq(s = 3) as Shape);
    shapes.push(Rc(w = 2, h = 5) as Shape);
    let mut total = 0;
    for s in shapes { total = total + s.area(); println(s.name()); }
    let m = HashMap[Int64, String]::new();
    m.insert(1, "one"); m.insert(2, "two"); m.insert(3, "three");
    let k = 7;
    println(apply(|x: Int64|: Int64 { x * k }, total).to_string());
    println(id[String]("s") + id[Int64](4).to_string() + id[Float64](1.5).to_string());
    println(describe(E::A) + describe(E::B(2)) + describe(E::C("x", true)));
    let p = P(x = 1, y = 2.5);
    println("${p.x} ${p.y} ${m.get(2).get_or_panic()}");
    let arr = Array[(Int64, String)]::new((1, "a"), (2, "b"));
    println(arr(1i64).1);
}
"""


def make_programs(scratch, tier):
    """returns list of dict(name, src, extra=[...], kind)"""
    progs = []
    src_dir = os.path.join(scratch, "src")
    os.makedirs(src_dir)

    def put(name, text):
        p = os.path.join(src_dir, name)
        os.makedirs(os.path.dirname(p), exist_ok=True)
        open(p, "w").write(text)
        return p
    progs.append(dict(name="hello", src=put("hello.dora", 'fn main() { println("hi"); }\n'), extra=[]))
    progs.append(dict(name="rich", src=put("rich.dora", RICH), extra=[]))
    extra = []
    # the command line lists the packages in an order that is neither sorted nor reverse sorted
    for k, n in enumerate(["cc", "aa", "ee", "bb", "dd"]):
        extra += ["--package", n, put("multi/%s.dora" % n, lib_source(n, k))]
    progs.append(dict(name="multi-package", src=put("multi/main.dora", MULTI_MAIN), extra=extra))
    # generator units: many functions, generics, lambdas, strings, shapes
    import fam_compose
    import fam_data
    import fam_call
    n = 40 if tier == "quick" else 150
    cases = fam_data.cases(quick=True)[:n] + fam_compose.cases(quick=True)[:n] + fam_call.cases(quick=True)[:n]
    progs.append(dict(name="family-unit", src=put("unit.dora", core.Unit(0, cases).source()), extra=[]))
    # corpus: every runnable test/rt program is a candidate; quick takes a deterministic stride
    ents = [e for e in corpus.entries() if not e.ignore and not e.expect_fail and e.src == e.path and not e.compile_args]
    stride = 120 if tier == "quick" else 6
    start = vcommon.seed() % stride
    for e in ents[start::stride]:
        progs.append(dict(name=e.rel, src=e.path, extra=[], corpus=True))
    return progs


def make_build_project(scratch):
    """a `dora build` project with five path dependencies (listed unsorted in the manifest)"""
    root = os.path.join(scratch, "proj")
    os.makedirs(os.path.join(root, "src"))
    deps = ["cc", "aa", "ee", "bb", "dd"]
    with open(os.path.join(root, "dora-package.toml"), "w") as f:
        f.write('[package]\nname = "proj"\n\n[dependencies]\n')
        for n in deps:
            f.write('%s = { path = "deps/%s" }\n' % (n, n))
    open(os.path.join(root, "src", "main.dora"), "w").write(MULTI_MAIN)
    for k, n in enumerate(deps):
        d = os.path.join(root, "deps", n)
        os.makedirs(os.path.join(d, "src"))
        open(os.path.join(d, "dora-package.toml"), "w").write('[package]\nname = "%s"\n' % n)
        open(os.path.join(d, "src", "lib.dora"), "w").write(lib_source(n, k))
    return root


# ------------------------------------------------------------------------------------------------

class Runner:
    def __init__(self, scratch, shim):
        self.scratch = scratch
        self.shim = shim
        self.cwds = {"root": "/", "a": os.path.join(scratch, "a"),
                     "deep": os.path.join(scratch, "deeper", "and", "deeper", "directory-with-a-long-name")}
        for d in self.cwds.values():
            os.makedirs(d, exist_ok=True)
        self.counter = 0
        self.lock = threading.Lock()
        self.shim_calls = 0

    def env(self, seed, tmp):
        e = dict(os.environ)
        e["LD_PRELOAD"] = self.shim
        e["VERIF_HASH_SEED"] = str(seed)
        e["RUST_BACKTRACE"] = "0"
        e["DORA_FLAGS"] = "--gc-worker 1"
        e["TMPDIR"] = tmp
        return e

    def compile(self, dora, prog, backend, kind, gc, seed, variant, compiler=None, boots_image=False):
        """One compilation in its own output directory.  Returns (sha256 or None, stderr, outpath)."""
        vname, cwdk, neigh, aslr = variant
        with self.lock:
            self.counter += 1
            n = self.counter
        out_dir = os.path.join(self.scratch, "o", "%06d" % n)
        os.makedirs(out_dir)
        tmp = os.path.join(out_dir, "tmp")
        os.makedirs(tmp)
        for i in range(neigh):
            open(os.path.join(out_dir, "neighbour-%02d.o" % i), "w").write("x" * i)
        # files that share the output's stem (what a previous `-S` / `-c` run or the user may have left there): they
        # are inputs of nobody and must survive the build untouched
        sentinels = {}
        if neigh and kind == "exe":
            for ext in (".s", ".o", ".S", ".dora-package", ".tmp"):
                sp = os.path.join(out_dir, "out" + ext)
                open(sp, "w").write("sentinel %s\n" % ext)
                sentinels[sp] = "sentinel %s\n" % ext
        ext = {"pkg": ".dora-package", "asm": "", "exe": ""}[kind]
        out = os.path.join(out_dir, "out" + ext)
        cmd = [dora, "compile", prog["src"], "-o", out] + list(prog["extra"])
        if kind == "pkg":
            cmd.append("-c")
        if kind == "asm":
            cmd.append("-S")
        if boots_image:
            cmd.append("--internal-compile-boots")
        if compiler:
            cmd += ["--compiler", compiler]
        elif backend == "cannon":
            cmd.append("--cannon")
        if gc and kind != "pkg":
            cmd.append("--gc=%s" % gc)
        if not aslr:
            cmd = ["setarch", "-R"] + cmd
        try:
            p = core.run_group(cmd, 900, env=self.env(seed, tmp), cwd=self.cwds[cwdk])
        except subprocess.TimeoutExpired:
            return None, "timeout", out
        err = p.stderr.decode("utf-8", "replace")
        produced = out if kind != "asm" else out + ".s"
        if p.returncode != 0 or not os.path.exists(produced):
            return None, err[-2000:], produced
        for sp, text in sentinels.items():
            try:
                ok = open(sp).read() == text
            except OSError:
                ok = False
            if not ok:
                return "CLOBBERED:" + os.path.basename(sp), "", produced
        h = sha(produced)
        return h, "", produced


def same_stem_builds(c, run, dora, prog, backend, scratch):
    """Builds of the same program for different collectors, started at the same moment, writing prog.<collector> into ONE
    directory (same stem, different extension): each must equal the build of the same configuration made alone."""
    gcs = ["swiper", "copy", "sweep", "zero"]
    solo = {}
    for gc in gcs:
        h, err, _ = run.compile(dora, prog, backend, "exe", None if gc == "swiper" else gc, 0, VARIANTS[0])
        solo[gc] = h
    d = os.path.join(scratch, "samestem-%s-%s" % (prog["name"], backend))
    os.makedirs(d)
    barrier = threading.Barrier(len(gcs))
    res = {}

    def one(gc):
        out = os.path.join(d, "prog." + gc)
        tmp = os.path.join(d, "tmp-" + gc)
        os.makedirs(tmp)
        cmd = [dora, "compile", prog["src"], "-o", out] + list(prog["extra"]) + ([] if backend == "boots" else ["--cannon"])
        if gc != "swiper":
            cmd.append("--gc=%s" % gc)
        barrier.wait()
        try:
            p = core.run_group(cmd, 900, env=run.env(0, tmp), cwd="/")
            res[gc] = sha(out) if p.returncode == 0 and os.path.exists(out) else "FAILED: " + p.stderr.decode("utf-8", "replace")[-300:]
        except subprocess.TimeoutExpired:
            res[gc] = "FAILED: timeout"
    ts = [threading.Thread(target=one, args=(gc,)) for gc in gcs]
    for t in ts:
        t.start()
    for t in ts:
        t.join()
    n = 0
    for gc in gcs:
        n += 1
        if solo[gc] is None or res.get(gc) != solo[gc]:
            c.violation("c15:same-stem-concurrent-builds:%s" % backend,
                        "%s [%s, gc=%s]: built at the same time as the other collectors' builds into one directory (outputs prog.%s ...) it "
                        "differs from the build made alone: %s vs %s" % (prog["name"], backend, gc, gc, str(res.get(gc))[:80], str(solo[gc])[:16]),
                        {"program": prog["name"], "backend": backend, "gc": gc, "alone": solo[gc], "concurrent": res.get(gc)})
    return n * 2


def shim_effective(dora, prog, scratch, shim):
    """The shim must really own the seeds: the same seed gives the same getrandom stream (checked through a
    tiny probe program: python's os.urandom uses getrandom(2) via libc) and differing seeds differ."""
    probe = "import ctypes,sys;l=ctypes.CDLL(None);b=ctypes.create_string_buffer(16);l.getrandom(b,16,0);sys.stdout.write(b.raw.hex())"
    outs = []
    for s in ("3", "3", "4"):
        e = dict(os.environ, LD_PRELOAD=shim, VERIF_HASH_SEED=s)
        outs.append(subprocess.run([sys.executable, "-c", probe], env=e, stdout=subprocess.PIPE).stdout)
    return outs[0] == outs[1] and outs[0] != outs[2] and len(outs[0]) == 32


def main(tier):
    c = vcommon.Check("C15", tier, "exploration")
    plain = vcommon.build_plain(need_boots=True)
    fast = vcommon.build_fast(need_boots=True)
    shim = build_shim()
    scratch = vcommon.scratch_dir("c15")
    quick = tier == "quick"
    try:
        if not shim_effective(None, None, scratch, shim):
            raise vcommon.MachineryError("getrandom shim is not effective in this environment")
        run = Runner(scratch, shim)
        progs = make_programs(scratch, tier)
        seeds = list(range(3 if quick else 24))
        jobs = []
        for pi, prog in enumerate(progs):
            rich = not prog.get("corpus")
            for backend in ("cannon", "boots"):
                kinds = ("pkg", "asm", "exe") if backend == "cannon" else ("asm", "exe")   # the package does not depend on the generator
                if not rich and quick:
                    kinds = kinds[:-1]    # corpus programs: package and assembly (the executable is the assembly + a fixed link step)
                for kind in kinds:
                    gcs = [None] if (quick or kind == "pkg" or not rich) else [None, "copy"]
                    for gc in gcs:
                        for seed in seeds:
                            for v in (VARIANTS if rich else [VARIANTS[seed % len(VARIANTS)], VARIANTS[(seed + 2) % len(VARIANTS)]]):
                                jobs.append((pi, backend, kind, gc, seed, v, fast))
                                # the debug-assertion build of the compiler is a different compiler configuration (it passes
                                # is_debug to the optimizing generator, which then emits extra self-checks), so its artefacts are
                                # compared among themselves: small programs, two (thorough: all) seeds
                                if rich and prog["name"] != "family-unit" and (seed < 2 or not quick) and v[0] in ("base", "cwd-deep"):
                                    jobs.append((pi, backend, kind, gc, seed, v, plain))

        def work(job):
            pi, backend, kind, gc, seed, v, host = job
            h, err, produced = run.compile(os.path.join(host, "dora"), progs[pi], backend, kind, gc, seed, v)
            if h is not None and kind != "exe":
                pass
            return job, h, err, produced
        boot_box = {}

        def boot_thread():
            try:
                boot_box["r"] = bootstrap(c, run, plain, fast, scratch, seeds if not quick else seeds[:2], quick)
            except Exception as ex:  # reported as machinery failure below
                boot_box["e"] = ex
        bt = threading.Thread(target=boot_thread)
        bt.start()
        results = core.parallel(work, jobs, workers=max(4, vcommon.NCPU - 2))
        groups = {}
        failures = 0
        for (pi, backend, kind, gc, seed, v, host), h, err, produced in results:
            hostname = "debug" if host == plain else "fast"
            # artefacts are only comparable per compiler configuration (see above)
            gkey = (pi, backend, kind, gc, hostname)
            if h is None:
                failures += 1
                c.violation("c15:compile-failed:%s:%s" % (progs[pi]["name"] if not progs[pi].get("corpus") else "corpus", backend),
                            "%s does not compile (%s, %s, seed %d, %s): %s" % (progs[pi]["name"], backend, kind, seed, v[0], err[-300:]),
                            {"program": progs[pi]["name"], "src": progs[pi]["src"], "extra": progs[pi]["extra"], "backend": backend,
                             "kind": kind, "gc": gc, "seed": seed, "variant": v[0], "stderr": err})
                continue
            if h.startswith("CLOBBERED:"):
                c.violation("c15:neighbour-file-clobbered:%s" % h.split(":")[1],
                            "%s [%s]: building the executable changed or deleted the unrelated file %s next to the output" % (
                                progs[pi]["name"], backend, h.split(":")[1]),
                            {"program": progs[pi]["name"], "backend": backend, "kind": kind, "file": h.split(":")[1]})
                continue
            groups.setdefault(gkey, []).append((h, seed, v[0], produced, hostname))
        evals = 0
        compared = 0
        for gkey, lst in sorted(groups.items(), key=lambda kv: str(kv[0])):
            pi, backend, kind, gc, hostname = gkey
            evals += len(lst)
            hashes = sorted(set(h for h, *_ in lst))
            compared += 1
            if len(hashes) > 1:
                ref = lst[0]
                other = next(x for x in lst if x[0] != ref[0])
                by_seed = {}
                for h, seed, vn, _, _ in lst:
                    by_seed.setdefault(seed, set()).add(h)
                seed_dep = all(len(s) == 1 for s in by_seed.values())
                cause = "hash-seed" if seed_dep else "environment-or-process"
                name = progs[pi]["name"] if not progs[pi].get("corpus") else "corpus"
                keep = os.path.join(vcommon.REPLAYS, "C15")
                c.violation("c15:differs:%s:%s:%s:%s" % (name, backend, kind, cause),
                            "%s [%s, %s, gc=%s]: %d different artefacts over %d builds (e.g. seed %d/%s vs seed %d/%s); varies with: %s" % (
                                progs[pi]["name"], backend, kind, gc or "swiper", len(hashes), len(lst), ref[1], ref[2], other[1], other[2], cause),
                            {"program": progs[pi]["name"], "src": progs[pi]["src"], "extra": progs[pi]["extra"], "backend": backend,
                             "kind": kind, "gc": gc, "a": {"seed": ref[1], "variant": ref[2], "sha256": ref[0]},
                             "b": {"seed": other[1], "variant": other[2], "sha256": other[0]},
                             "sources": _sources(progs[pi])})
        # ---- same stem, same directory, same moment
        for prog in progs[:2]:
            for backend in ("cannon", "boots"):
                evals += same_stem_builds(c, run, os.path.join(fast, "dora"), prog, backend, scratch)
                compared += 4
        # ---- dora build project (manifest-driven dependencies)
        proj_hashes = {}
        projs = []
        for seed in seeds:
            root = make_build_project(os.path.join(scratch, "bp%d" % seed))
            projs.append((seed, root))

        def build_proj(item):
            seed, root = item
            tmp = os.path.join(root, "tmp")
            os.makedirs(tmp)
            try:
                p = core.run_group([os.path.join(fast, "dora"), "build", root], 600, env=run.env(seed, tmp), cwd="/")
            except subprocess.TimeoutExpired:
                return seed, None, "timeout"
            exe = os.path.join(root, "target", "proj")
            if p.returncode != 0 or not os.path.exists(exe):
                return seed, None, p.stderr.decode("utf-8", "replace")[-1500:]
            return seed, sha(exe), ""
        # every project lives at a different path, so only the package (paths are not embedded in it?) -- compare exe and
        # report a difference only if it follows the seed, not the path: build each seed twice at two paths
        res1 = core.parallel(build_proj, projs)
        for seed, h, err in res1:
            if h is None:
                c.violation("c15:build-project-failed", "dora build failed (seed %d): %s" % (seed, err[-300:]), {"seed": seed, "stderr": err})
            else:
                proj_hashes[seed] = h
                evals += 1
        # the project path is part of the input (source paths are recorded), so all seeds are rebuilt at ONE path, sequentially
        same_path = []
        one = os.path.join(scratch, "bp-same")
        for seed in seeds[:4]:
            shutil.rmtree(one, ignore_errors=True)
            root = make_build_project(one)
            s, h, err = build_proj((seed, root))
            if h:
                same_path.append((seed, h))
                evals += 1
        if len(set(h for _, h in same_path)) > 1:
            c.violation("c15:differs:build-project:hash-seed",
                        "`dora build` of a project with five path dependencies gives %d different executables over seeds %s" % (
                            len(set(h for _, h in same_path)), [s for s, _ in same_path]),
                        {"seeds": same_path, "project": "five path dependencies cc, aa, ee, bb, dd (see engines/checks/c15.py make_build_project)"})
        compared += 1

        # ---- bootstrap fixed point
        bt.join()
        if "e" in boot_box:
            raise boot_box["e"]
        boot = boot_box["r"]
        evals += boot["builds"]
        c.coverage = {
            "evaluations": evals,
            "distinct_nontrivial": compared + boot["comparisons"],
            "rule": "evaluations = artefacts built and hashed; distinct = (program, code generator, artefact kind, collector) groups whose "
                    "members -- one build per hash seed x environment variant -- were compared byte for byte, plus bootstrap comparisons. "
                    "A group is non-trivial because its builds really differ in seed (shim verified effective) and environment.",
            "samples": [{"program": progs[0]["name"], "builds_per_group": len(seeds) * len(VARIANTS)},
                        {"program": "multi-package", "what": "main + 5 `extern package` dependencies passed via --package in unsorted order"},
                        {"program": "bootstrap", "what": boot["what"]}],
            "exhaustive": True,
            "programs": len(progs),
            "program_names": [p["name"] for p in progs],
            "hash_seeds": len(seeds),
            "environment_variants": [v[0] for v in VARIANTS] + ["files sharing the output's stem must survive", "same-stem concurrent builds in one directory"],
            "concurrency": "all builds run %d at a time (the quiet-machine case is the bootstrap's sequential chain)" % vcommon.NCPU,
            "bootstrap": boot,
            "compile_failures": failures,
        }
        c.assumptions = ["hash seeds are enumerated (K hash functions), not the n! iteration orders of an n-entry map",
                         "the output path itself is part of the input for executables only through the source paths given on the command line; "
                         "every build writes to its own directory, so a dependence on the output path would be reported as environment dependence",
                         "gcc/as/ld are trusted to be deterministic given identical input and are run under the same shim"]
        return c.finish()
    finally:
        shutil.rmtree(scratch, ignore_errors=True)


def _sources(prog):
    out = {}
    for p in [prog["src"]] + [x for x in prog["extra"] if x.endswith(".dora")]:
        try:
            out[p] = open(p).read()[:20000]
        except OSError:
            pass
    return out


def bootstrap(c, run, plain, fast, scratch, seeds, quick):
    """stage1 = boots built by the baseline generator; stage2 = boots built by stage1; stage3 = boots built by stage2.
    For every chain: stage2 == stage3 (executables and assembly).  Across seeds and across first-stage builders
    (stage1 linked with the default and with the copying collector, i.e. different but equally correct first
    stages): the assembly of stage2 is the same.  A debug-assertion toolchain is a different compiler
    configuration (is_debug makes the optimizing generator emit self-checks), so its chain is compared only with itself."""
    boots_src = dict(name="boots", src=os.path.join(vcommon.REPO, "pkgs", "boots", "boots.dora"), extra=[])
    builds = 0
    comparisons = 0
    base = VARIANTS[0]

    def chain(arg):
        seed, host, label, gc1 = arg
        dora = os.path.join(host, "dora")
        n = 0
        # package first (as tools/bootstrap does), then every stage from the package
        h, err, pkg = run.compile(dora, boots_src, "cannon", "pkg", None, seed, base, boots_image=True)
        if h is None:
            return label, seed, None, "package: " + err, n
        n += 1
        pkgprog = dict(name="boots-package", src=pkg, extra=[])
        h1, err, s1 = run.compile(dora, pkgprog, "cannon", "exe", gc1, seed, base, boots_image=True)
        if h1 is None:
            return label, seed, None, "stage1: " + err, n
        n += 1
        h2, err, s2 = run.compile(dora, pkgprog, "boots", "exe", None, seed, base, compiler=s1, boots_image=True)
        if h2 is None:
            return label, seed, None, "stage2: " + err, n
        n += 1
        h3, err, s3 = run.compile(dora, pkgprog, "boots", "exe", None, seed, base, compiler=s2, boots_image=True)
        if h3 is None:
            return label, seed, None, "stage3: " + err, n
        n += 1
        a2, err, _ = run.compile(dora, pkgprog, "boots", "asm", None, seed, base, compiler=s1, boots_image=True)
        a3, err3, _ = run.compile(dora, pkgprog, "boots", "asm", None, seed, base, compiler=s2, boots_image=True)
        if a2 is None or a3 is None:
            return label, seed, None, "stage asm: " + err + err3, n
        n += 2
        for f in (s1, s2, s3):
            try:
                os.remove(f)
            except OSError:
                pass
        return label, seed, dict(pkg=h, stage1=h1, stage2=h2, stage3=h3, asm2=a2, asm3=a3), "", n
    args = []
    for i, s in enumerate(seeds):
        args.append((s, fast, "release", "copy" if i % 2 else None))
    if not quick:
        # (its stage chain takes minutes because the debug runtime re-protects the young generation at every collection)
        args.append((seeds[0], plain, "debug", None))
        args.append((seeds[1], plain, "debug", "copy"))
    res = core.parallel(chain, args, workers=6)
    asm2 = {}
    pkgs = set()
    for (seed_, host_, label_, gc1), (label, seed, d, err, n) in zip(args, res):
        builds += n
        if d is None:
            c.violation("c15:bootstrap-failed:%s" % err.split(":")[0], "bootstrap chain (%s, seed %d) failed at %s" % (label, seed, err[-400:]),
                        {"toolchain": label, "seed": seed, "stage1_collector": gc1, "stderr": err})
            continue
        comparisons += 2
        if d["stage2"] != d["stage3"] or d["asm2"] != d["asm3"]:
            c.violation("c15:bootstrap-no-fixed-point", "stage2 and stage3 of the optimizing compiler differ (%s toolchain, seed %d)" % (label, seed),
                        {"toolchain": label, "seed": seed, "stage1_collector": gc1, "hashes": d})
        asm2.setdefault(label, {})[(seed, gc1 or "swiper")] = d["asm2"]
        pkgs.add(d["pkg"])
    for label, m in asm2.items():
        comparisons += 1
        if len(set(m.values())) > 1:
            c.violation("c15:bootstrap-depends-on-seed-or-builder",
                        "the assembly of stage2 differs across hash seeds / first-stage builders (%s toolchain): %s" % (
                            label, sorted((k, v[:12]) for k, v in m.items()),), {"asm2": {"%s/%s" % k: v for k, v in m.items()}})
    if len(pkgs) > 1:
        c.violation("c15:differs:boots:cannon:pkg:hash-seed", "the boots package differs across seeds", {"hashes": sorted(pkgs)})
    return {"builds": builds, "comparisons": comparisons, "chains": len(args),
            "what": "per chain: package -> stage1 (baseline generator; default or copying collector) -> stage2 -> stage3, executables and "
                    "assembly of stage2/stage3 compared; stage2 assembly compared across %d seeds and first-stage builders" % len(seeds)}


def replay(path):
    r = json.load(open(path))
    print(json.dumps(r, indent=1)[:6000])
    if "a" not in r or "src" not in r:
        return 0
    plain = vcommon.build_plain(need_boots=True)
    fast = vcommon.build_fast(need_boots=True)
    scratch = vcommon.scratch_dir("c15r")
    try:
        run = Runner(scratch, build_shim())
        srcs = r.get("sources", {})
        for p, text in srcs.items():
            if not os.path.exists(p):
                os.makedirs(os.path.dirname(p), exist_ok=True)
                open(p, "w").write(text)
        prog = dict(name=r["program"], src=r["src"], extra=r["extra"])
        hs = []
        for side in ("a", "b", "a", "b"):
            v = next(x for x in VARIANTS if x[0] == r[side]["variant"])
            h, err, _ = run.compile(os.path.join(fast, "dora"), prog, r["backend"], r["kind"], r.get("gc"), r[side]["seed"], v)
            hs.append(h)
        print("rebuilt:", hs)
        if hs[0] != hs[2] or hs[1] != hs[3]:
            print("replay is not deterministic per coordinate (process-level nondeterminism)")
        if len(set(hs)) > 1:
            print("VIOLATION property=C15 replay=%s" % path)
            return 1
        return 0
    finally:
        shutil.rmtree(scratch, ignore_errors=True)
