"""C05 -- only well-typed programs are compiled, and all of them are.
Accept side: every generator program (well typed by construction) passes the real front end, its emitted
bytecode passes the verifier, and both code generators compile it.  Reject side: every single-fault mutant
(one static rule broken at one position; all positions enumerated) is rejected with >= 1 error."""
import collections
import json
import os
import shutil
import subprocess
import sys

import vcommon, seq
sys.path.insert(0, os.path.join(vcommon.VERIF, "engines", "progspace"))
import core  # noqa: E402

SEP = "\n\x1e\n"


def verdicts(b, scratch, name, programs, emit):
    inp = os.path.join(scratch, name + ".txt")
    outp = os.path.join(scratch, name + ".v")
    with open(inp, "w") as f:
        f.write(SEP.join(programs))
    rep = seq.run_seqmc(b, "verdicts", {"input": inp, "verdict-out": outp, "emit": 1 if emit else 0}, timeout=7200)
    res = []
    for line in open(outp):
        i, st, n, msg = line.rstrip("\n").split("\t", 3)
        res.append((int(i), st, int(n), msg))
    res.sort()
    return rep, res


def standalone(case, idx=0):
    """a family case as a complete program"""
    parts = ["use std::string::Stringable;\nuse std::traits::Equals;\n", case.prelude,
             case.decls.replace("{id}", str(idx)),
             "fn main() {\n%s\n}\n" % case.body.replace("{id}", str(idx))]
    return "\n".join(p for p in parts if p)


def main(tier):
    c = vcommon.Check("C05", tier, "exploration")
    b = seq.build_seqmc()
    bindir = vcommon.build_plain(need_boots=True)
    tc = core.Toolchain(bindir)
    scratch = vcommon.scratch_dir("c05")
    quick = tier == "quick"
    try:
        import fam_illtyped
        import fam_arith, fam_order, fam_ctrl, fam_data, fam_coll, fam_call, fam_compose
        groups = fam_illtyped.all_programs(quick)
        good = [g for g, _ in groups]
        muts = [(cls, p, what) for _, ms in groups for cls, p, what in ms]
        # more accept-side programs: every case of the behavioural families as a program of its own (subsampled by a
        # fixed stride in quick; all of them in thorough)
        fam_cases = []
        for mod, stride in ((fam_arith, 40), (fam_order, 40), (fam_ctrl, 4), (fam_data, 6), (fam_coll, 10), (fam_call, 2), (fam_compose, 1)):
            cs = mod.cases(quick=True)
            fam_cases += cs[::(stride if quick else max(1, stride // 8))]
        good_all = good + [standalone(x) for x in fam_cases]
        rep_g, res_g = verdicts(b, scratch, "good", good_all, emit=True)
        seq.absorb(c, rep_g, "accept")
        for i, st, n, msg in res_g:
            if st == "rejected":
                c.violation("c05:well-typed-rejected:%s" % msg.split(":")[0][:60], "well-typed program rejected: %s" % msg,
                            {"program": good_all[i], "message": msg})
        rep_b, res_b = verdicts(b, scratch, "bad", [p for _, p, _ in muts], emit=False)
        seq.absorb(c, rep_b, "reject")
        per_class = collections.Counter()
        for i, st, n, msg in res_b:
            cls, prog, what = muts[i]
            per_class[cls] += 1
            if st == "ok":
                c.violation("c05:ill-typed-accepted:%s" % cls, "%s accepted: %s" % (cls, what), {"class": cls, "what": what, "program": prog})
            elif st == "rejected" and n < 1:
                c.violation("c05:rejected-without-diagnostic:%s" % cls, what, {"program": prog})
        # CLI: representatives of every class must fail with a message and emit nothing; accepted programs build with both generators
        cli_runs = 0
        seen_cls = set()
        for cls, prog, what in muts:
            if cls in seen_cls and not (not quick and cli_runs < 400):
                continue
            seen_cls.add(cls)
            src = os.path.join(scratch, "cli%d.dora" % cli_runs)
            out = os.path.join(scratch, "cli%d.dora-package" % cli_runs)
            open(src, "w").write(prog)
            p = subprocess.run([tc.dora, "compile", "-c", src, "-o", out], stdout=subprocess.PIPE, stderr=subprocess.PIPE, timeout=120)
            cli_runs += 1
            err = p.stderr.decode("utf-8", "replace") + p.stdout.decode("utf-8", "replace")
            if p.returncode == 0 or os.path.exists(out):
                c.violation("c05:cli-emits-for-ill-typed:%s" % cls, "dora compile -c status %d, package exists: %s (%s)" % (
                    p.returncode, os.path.exists(out), what), {"program": prog, "stderr": err[-1500:]})
            elif "error" not in err:
                c.violation("c05:cli-no-diagnostic:%s" % cls, what, {"program": prog, "stderr": err[-1500:]})
        units = core.pack(fam_cases[:: (3 if quick else 1)], per_unit=500)
        builder = core.Builder(tc, scratch)

        def build(job):
            u, be = job
            exe, err = builder.build(u, be, gc="copy")
            return (u, be, exe is not None, err)
        for u, be, ok, err in core.parallel(build, [(u, be) for u in units for be in ("cannon", "boots")], workers=8):
            cli_runs += 1
            if not ok:
                c.violation("c05:codegen-failed:%s" % be, "%s cannot compile a well-typed unit: %s" % (be, err[-300:]),
                            {"backend": be, "source": u.source(), "stderr": err[-3000:]})
        c.coverage = {
            "evaluations": len(good_all) + len(muts) + cli_runs,
            "distinct_nontrivial": len(set(p for _, p, _ in muts)),
            "rule": "accept: every generator program (expression shapes, statement lists, generic/trait/visibility feature programs, "
                    "and cases of all behavioural families as standalone programs) through Sema::new + check_program + emit_program "
                    "(bytecode verifier) in process, and packed units through `dora compile` with both code generators. reject: from "
                    "each generator program every single-fault mutant of 10 rule classes at every applicable position (each typed "
                    "leaf, each call, each identifier use, each match arm, each trait method, each private member ...); "
                    "distinct_nontrivial = distinct mutant programs, each ill-typed by construction.",
            "samples": [{"class": muts[0][0], "what": muts[0][2]}, {"class": muts[len(muts) // 2][0], "what": muts[len(muts) // 2][2]},
                        {"class": muts[-1][0], "what": muts[-1][2]}],
            "exhaustive": True,
            "well_typed_programs": len(good_all),
            "mutants_per_class": dict(per_class),
            "cli_runs": cli_runs,
        }
        c.assumptions = ["mutants are ill-typed by construction (typed holes of the generator); positions where the replacement would "
                         "stay well typed (tuple elements, shift amounts) are not generated"]
        return c.finish()
    finally:
        shutil.rmtree(scratch, ignore_errors=True)


def replay(path):
    r = json.load(open(path))
    print(json.dumps(r, indent=1)[:4000])
    return 0
