"""C06 -- the front end never crashes, whatever text it is given.
Bounded-exhaustive text space (lexeme alphabet x contexts), all repository files and all their
single-token edits through the real lexer/parser; the same texts (shorter bound) and every repository
file through the real semantic analysis; the compile command on one representative per class."""
import os
import shutil
import subprocess
import vcommon, seq

CLI_TEXTS = [
    "fn f() { x . }", "use { self", "fn f() { (.x[ }", "fn", "impl", "mod", "fn f() { [ }", "class C { : }",
    "fn main() { let a = [1i32]; }", "fn main() { let x: Int32 = \"s\"; }", "fn main() { 1 +", "\"u", "/*",
    "fn main() { match x { } }", "enum E { A(, }", "trait T { fn f(; }", "fn main() { |x| }", "let x = ;",
    "fn main() { ä \U0001F600 }", "fn f[T: ](a: ) {}",
]


def decl_graph_texts(tier):
    """Every pair of mutually referring declarations A, B whose right-hand sides / field types range over all type
    expressions of depth <= 1 over {A, B, Int64} (tuples, lambda parameter and result, Option, Array): alias cycles,
    infinitely sized value types, recursion through every type constructor.  Semantic analysis must diagnose or accept
    each of them; a crash of the compiler process (stack overflow included) is only observable per process."""
    leaves = ["A", "B", "Int64"]
    types = list(leaves)
    for x in leaves:
        types += ["Option[%s]" % x, "Array[%s]" % x]
        for y in leaves:
            types += ["(%s, %s)" % (x, y), "(%s): %s" % (x, y)]
    kinds = [("alias", "type A = %s;\ntype B = %s;\n"),
             ("struct", "struct A { f: %s }\nstruct B { g: %s }\n")]
    if tier != "quick":
        kinds += [("enum", "enum A { X(%s), Y }\nenum B { P, Q(%s) }\n"),
                  ("class", "class A { f: %s }\nclass B { g: %s }\n"),
                  ("alias-struct", "type A = %s;\nstruct B { g: %s }\n"),
                  ("trait-alias", "trait T { type X; }\ntype A = %s;\nimpl T for Int64 { type X = A; }\ntype B = %s;\n")]
    out = []
    for kname, tmpl in kinds:
        for t1 in types:
            for t2 in types:
                out.append(tmpl % (t1, t2) + "fn main() {}\n")
    return out


def cli_part(c, bindir, scratch, texts):
    """`dora compile -c` on erroneous inputs: failure status, diagnostics, no backtrace, no output."""
    from concurrent.futures import ThreadPoolExecutor

    def run_one(item):
        i, t = item
        src = os.path.join(scratch, "cli%d.dora" % i)
        out = os.path.join(scratch, "cli%d.dora-package" % i)
        open(src, "w").write(t)
        try:
            p = subprocess.run([os.path.join(bindir, "dora"), "compile", "-c", src, "-o", out],
                               stdout=subprocess.PIPE, stderr=subprocess.PIPE, timeout=60)
        except subprocess.TimeoutExpired:
            try:
                p = subprocess.run([os.path.join(bindir, "dora"), "compile", "-c", src, "-o", out],
                                   stdout=subprocess.PIPE, stderr=subprocess.PIPE, timeout=600)
            except subprocess.TimeoutExpired:
                return t, out, None
        finally:
            pass
        return t, out, p
    with ThreadPoolExecutor(max_workers=vcommon.NCPU) as ex:
        results = list(ex.map(run_one, list(enumerate(texts))))
    n = 0
    for t, out, p in results:
        if p is None:
            c.violation("cli-hang", "dora compile did not terminate on %r" % t, {"text": t})
            continue
        n += 1
        err = p.stderr.decode("utf-8", "replace") + p.stdout.decode("utf-8", "replace")
        exists = os.path.exists(out)
        try:
            os.remove(out)
        except OSError:
            pass
        if "panicked at" in err or p.returncode < 0 or p.returncode > 1:
            # attribute to the in-process panic class where possible
            head = ""
            for line in err.splitlines():
                if "panicked at" in line:
                    head = line.strip()
                    break
            c.violation("cli-panic:%s" % head.split(" at ")[-1].split(":")[0] if head else "cli-crash:%d" % p.returncode,
                        "dora compile crashed on %r: %s" % (t, (head or err[-200:])), {"text": t, "stderr": err[-2000:]})
        elif p.returncode == 0 and exists:
            pass  # accepted program (the text happened to be valid)
        elif p.returncode == 1 and exists:
            c.violation("cli-output-on-failure", "package emitted although compilation failed: %r" % t, {"text": t})
        elif p.returncode == 1 and "error" not in err.lower():
            c.violation("cli-no-diagnostic", "failure status without a readable message: %r" % t, {"text": t, "stderr": err[-500:]})
    return n


def main(tier):
    c = vcommon.Check("C06", tier, "exploration")
    b = seq.build_seqmc()
    bindir = vcommon.build_plain(need_boots=False)
    scratch = vcommon.scratch_dir("c06")
    try:
        flist, nfiles = seq.dora_file_list(scratch)
        shard = vcommon.seed() % 4
        if tier == "quick":
            parts = [
                ("text", {"oracle": "c06", "alphabet": "sigma", "maxlen": 3}),
                ("text", {"oracle": "c06", "alphabet": "delims", "maxlen": 5}),
                ("files", {"oracle": "c06", "list": flist, "edit-max-tokens": 300}),
                ("sema", {"alphabet": "sigma", "maxlen": 1}),
                ("sema", {"alphabet": "core", "maxlen": 2, "minlen": 2, "contexts": "top,fnbody"}),
                ("sema", {"list": flist, "shard": shard, "shards": 4}),
            ]
        else:
            parts = [
                ("text", {"oracle": "c06", "alphabet": "sigma", "maxlen": 3}),
                ("text", {"oracle": "c06", "alphabet": "core", "maxlen": 4, "minlen": 4}),
                ("text", {"oracle": "c06", "alphabet": "delims", "maxlen": 6}),
                ("files", {"oracle": "c06", "list": flist, "edit-max-tokens": 100000}),
                ("sema", {"alphabet": "sigma", "maxlen": 2}),
                ("sema", {"alphabet": "core", "maxlen": 3, "minlen": 3, "contexts": "top,fnbody,classbody"}),
                ("sema", {"list": flist}),
            ]
        evals = 0
        nontrivial = 0
        sema_runs = 0
        samples = []
        spaces = []
        cli_texts = list(CLI_TEXTS)
        for sub, args in parts:
            rep = seq.run_seqmc(b, sub, args, timeout=6 * 3600)
            seq.absorb(c, rep, "%s %s" % (sub, args.get("alphabet", "files")))
            e = seq.evals_of(rep)
            evals += e
            cn = rep["counters"]
            nontrivial += cn.get("texts_with_errors", 0) + cn.get("rejected", 0) + cn.get("panicked", 0)
            if sub == "sema":
                sema_runs += e
            samples += rep["samples"][:2]
            for f in rep["findings"].values():
                if not f["example"].startswith("/") and len(f["example"]) < 200:
                    cli_texts.append(f["example"])
            spaces.append({"cmd": rep["_cmd"].replace(scratch, "<scratch>"), "evaluations": e,
                           "counters": cn, "extra": rep["extra"]})
        decl_texts = decl_graph_texts(tier)
        ncli = cli_part(c, bindir, scratch, cli_texts[:60] + decl_texts)
        c.coverage = {
            "evaluations": evals + ncli,
            "distinct_nontrivial": nontrivial,
            "rule": "parser: every string over the 110-lexeme alphabet up to the length bound in 12 syntactic contexts, "
                    "every string over the 14-symbol delimiter alphabet up to its bound, every repository .dora file and "
                    "every single-token edit of it; semantic analysis (Sema::new + check_program on the real crates): the "
                    "same text space at a shorter bound and every repository file as a program; CLI: `dora compile -c` on "
                    "one text per observed class and on every pair of mutually referring alias/struct(/enum/class) declarations "
                    "whose types range over all type expressions of depth <= 1 over {A, B, Int64} (one compiler process each, so that "
                    "stack overflows and aborts are observed). Non-trivial = text that is not accepted silently (>= 1 diagnostic), "
                    "i.e. reaches error reporting/recovery; texts are enumerated without repetition.",
            "samples": samples,
            "exhaustive": True,
            "sema_runs": sema_runs,
            "cli_runs": ncli,
            "declaration_graph_programs": len(decl_texts),
            "repo_files": nfiles,
            "spaces": spaces,
        }
        c.assumptions = ["texts beyond the length bounds are represented only by repository files and their edits",
                         "hang detection: 120 CPU-seconds of the worker thread per parsed/formatted input (3600 s wall), 60 s per semantic analysis"]
        return c.finish()
    finally:
        shutil.rmtree(scratch, ignore_errors=True)


def replay(path):
    import json
    r = json.load(open(path))
    b = seq.build_seqmc()
    ex = r.get("example") or r.get("text") or r.get("input")
    print("replaying on", repr(ex)[:300])
    if ex.startswith("/"):
        print("file-based case: re-run", r.get("cmd"))
        return 0
    open("/var/tmp/verif-replay.dora", "w").write(ex)
    rep = seq.run_seqmc(b, "sema", {"list": "/dev/stdin"})
    return 0
