"""C20 -- editor positions and symbol ranges always match the document.
Explicit enumeration of all texts up to a length bound over {a, 2/3/4-byte chars, LF, CR, space} x every
boundary offset x every (line, character) incl. out-of-range and mid-surrogate positions, against an
independent reference; document-symbol trees of the C06 text space and of all repository files."""
import os
import shutil
import vcommon, seq


def main(tier):
    c = vcommon.Check("C20", tier, "model_checking")
    d = vcommon.cargo_build_harness(os.path.join(vcommon.VERIF, "engines", "lsmc"))
    b = os.path.join(d, "lsmc")
    scratch = vcommon.scratch_dir("c20")
    try:
        flist, nfiles = seq.dora_file_list(scratch)
        parts = [("positions", {"maxlen": 5 if tier == "quick" else 6, "pairs-upto": 3 if tier == "quick" else 4}),
                 ("symbols", {"maxlen": 2 if tier == "quick" else 3}),
                 ("files", {"list": flist})]
        evals = 0
        states = 0
        transitions = 0
        nontrivial = 0
        samples = []
        detail = []
        for sub, args in parts:
            rep = seq.run_seqmc(b, sub, args, timeout=4 * 3600)
            seq.absorb(c, rep, sub)
            evals += rep["evaluations"]
            cn = rep["counters"]
            if sub == "positions":
                states = rep["evaluations"]
                transitions = cn.get("position_checks", 0)
                nontrivial += cn.get("texts_nontrivial", 0)
            else:
                nontrivial += cn.get("texts_with_symbols", 0)
            samples += rep["samples"][:3]
            detail.append({"cmd": rep["_cmd"].replace(scratch, "<scratch>"), "evaluations": rep["evaluations"], "counters": cn})
        c.coverage = {
            "states": states,
            "transitions": transitions,
            "traces_validated_against_impl": states,
            "evaluations": evals,
            "distinct_nontrivial": nontrivial,
            "rule": "state = document text (all texts up to the length bound over 7 symbols: a, 2-byte, 3-byte, 4-byte/surrogate "
                    "pair, LF, CR, space); transition = one conversion query (every char-boundary offset -> position -> offset; "
                    "every (line, character) up to lines+1 / max column+2 -> offset; every ordered position pair -> span for short "
                    "texts), each evaluated on the real position.rs and compared with an independent reference. Symbol trees: every "
                    "text of the lexeme space up to the bound in 5 declaration contexts x 2 line endings and every repository file "
                    "through the real scan_single_file; range inside document, selection inside range, children inside parents, no panic. "
                    "non-trivial = texts with a line break or multi-byte character + texts yielding at least one symbol.",
            "samples": samples,
            "exhaustive": True,
            "repo_files": nfiles,
            "parts": detail,
        }
        c.assumptions = ["the language-server modules are mounted unchanged (#[path]/include!) into the harness crate",
                         "positions strictly inside a surrogate pair only need to stay on their line (the property does not fix the rounding)"]
        return c.finish()
    finally:
        shutil.rmtree(scratch, ignore_errors=True)


def replay(path):
    import json
    print(json.dumps(json.load(open(path)), indent=1)[:3000])
    return 0
