"""C09 -- mutexes, conditions, joins and atomics keep their promises in every interleaving.
Model checking (loom) of Dora's Mutex/Condition -- interpreted from the syntax tree of pkgs/std/thread.dora as
parsed by dora-parser at check time -- on top of the REAL wait-list natives, blocking flags, join and the real
stop-the-world protocol (objects moved while threads are queued); explicit-state search of the real wait table."""
import json
import os
import subprocess
import vcommon, schedrun

TWO = ["mutex2", "mutex2x2", "cond-pc", "cond-nopermit", "join"]
MORE = ["mutex3", "cond-all", "queue", "mutex3-gc", "cond-gc"]


def hashmap_bfs(c, b, depth, states, homes, label):
    p = subprocess.run([b, "hashmap", str(depth), "--preemptions", str(states), "--max-seconds", str(homes)],
                       stdout=subprocess.PIPE, stderr=subprocess.PIPE, cwd="/var/tmp", timeout=7200)
    out = p.stdout.decode("utf-8", "replace")
    res = None
    for line in out.splitlines():
        if line.startswith("RESULT "):
            res = json.loads(line[7:])
        if line.startswith("VIOLATION "):
            hist = line.split("history=", 1)[1].split(" :: ")[0]
            why = line.split(" :: ", 1)[1]
            c.violation("wait-table:" + why.split(":")[0][:60], "wait table (%s): after %s: %s" % (label, hist, why),
                        {"family": "hashmap", "model": str(depth), "history": hist, "why": why,
                         "cmd": "%s hashmap %d --checkpoint %s" % (b, depth, hist)})
    if res is None:
        raise vcommon.MachineryError("wait-table search produced no result: " + p.stderr.decode()[-2000:])
    return res


def main(tier):
    c = vcommon.Check("C09", tier, "model_checking")
    b = schedrun.build_sched()
    env = {"VERIF_THREAD_DORA": os.path.join(vcommon.REPO, "pkgs/std/thread.dora")}
    jobs = []
    if tier == "quick":
        jobs += [dict(family="sync", model=m, bound=None, env=env) for m in TWO if m != "mutex2x2"]
        jobs += [dict(family="sync", model="mutex2x2", bound=4, env=env)]
        jobs += [dict(family="sync", model=m, bound=3, env=env) for m in MORE]
        bounds = {"2 threads": "unbounded (mutex2x2: 4)", "3-4 threads": 3}
        bfs = [(16, 400000, 2, "homes {0,8}, all removals"), (22, 400000, 12, "homes {0,8}, oldest/newest removal"),
               (12, 400000, 4, "homes {0,8,16,24}")]
    else:
        jobs += [dict(family="sync", model=m, bound=None, env=env) for m in TWO]
        jobs += [dict(family="sync", model=m, bound=5, env=env, max_seconds=3000) for m in MORE]
        bounds = {"2 threads": "unbounded", "3-4 threads": 5}
        bfs = [(22, 6000000, 2, "homes {0,8}, all removals"), (30, 6000000, 12, "homes {0,8}, oldest/newest removal"),
               (18, 6000000, 4, "homes {0,8,16,24}")]
    results = schedrun.run_models(b, jobs)
    agg = schedrun.absorb(c, b, results, "C09")
    bfs_res = [hashmap_bfs(c, b, d, s, h, label) for d, s, h, label in bfs]
    c.coverage = {
        "states": agg["distinct_traces"] + sum(r["states"] for r in bfs_res),
        "transitions": agg["scheduling_points"] + sum(r["transitions"] for r in bfs_res),
        "traces_validated_against_impl": agg["executions"] + sum(r["transitions"] for r in bfs_res),
        "evaluations": agg["executions"] + sum(r["transitions"] for r in bfs_res),
        "distinct_nontrivial": agg["distinct_traces"] + sum(r["states"] for r in bfs_res),
        "samples": [{"model": r["model"], "bound": r["bound"], "result": r.get("result")} for r in results[:5]] + bfs_res[:2],
        "rule": "loom: one model per scenario (critical sections under one mutex with 2-3 threads and 1-2 rounds, producer/"
                "consumer and two consumers on a condition, notify without waiter followed by a single wait, join visibility, "
                "bounded queue with two conditions, and the mutex/condition scenarios with a collector thread that stops the "
                "world and moves the lock objects while threads are queued). Mutex::{lock_op, lock_slow, "
                "transition_to_locked_contended, unlock_op, unlock_slow} and Condition::{wait, notify_one, notify_all} are "
                "interpreted from thread.dora; wait/notify/enqueue/block/wakeup_* are the real runtime functions. Oracles: "
                "loom access tracking on the protected cells (mutual exclusion, join visibility), deadlock = lost wake-up, "
                "final counters, Dora asserts. Explicit-state search: real ObjectHashMap vs BTreeMap over insert/remove/"
                "lookup-absent/epoch actions, canonical state = slot vector by home class; invariants: agreement, an EMPTY "
                "slot always exists (probe termination).",
        "exhaustive": not agg["incomplete"] and all(not r["capped"] for r in bfs_res),
        "preemption_bounds": bounds,
        "incomplete_models": agg["incomplete"],
        "wait_table_search": bfs_res,
        "models": len(results),
    }
    c.assumptions = ["atomic intrinsics are modelled as SeqCst operations on the lock word (the compiled code uses lock-prefixed "
                     "instructions; their encoding is checked by C07 and their presence by C10)",
                     "compiled multi-threaded Dora executables under OS scheduling are not explored (sampling, not this family)",
                     "the interpreter supports exactly the constructs used in thread.dora; anything else is a machinery failure"]
    return c.finish()


def replay(path):
    r = json.load(open(path))
    if r.get("family") == "hashmap":
        b = schedrun.build_sched()
        p = subprocess.run([b, "hashmap", r["model"], "--checkpoint", r["history"]], cwd="/var/tmp")
        return 0
    return schedrun.replay(path)
