"""C12 -- parallel collection phases finish exactly when all work is done.
Model checking (loom) of the REAL Terminator with workers running the marking/evacuation worker loop over an
abstract pool, one model per enumerated publish pattern."""
import subprocess
import vcommon, schedrun


def patterns(binary, n):
    p = subprocess.run([binary, "term-patterns", str(n)], stdout=subprocess.PIPE, check=True)
    return [l for l in p.stdout.decode().splitlines() if l.strip()]


def main(tier):
    c = vcommon.Check("C12", tier, "model_checking")
    b = schedrun.build_sched()
    jobs = []
    if tier == "quick":
        p3 = patterns(b, 3)
        jobs += [dict(family="term", model="2:" + p, bound=None, max_seconds=120) for p in p3]
        jobs += [dict(family="term", model="3:" + p, bound=2) for p in p3]
        bounds = {"2 workers": "unbounded", "3 workers": 2}
    else:
        p3 = patterns(b, 3)
        p4 = patterns(b, 4)
        jobs += [dict(family="term", model="2:" + p, bound=None, max_seconds=1800) for p in p4]
        jobs += [dict(family="term", model="3:" + p, bound=3) for p in p4]
        jobs += [dict(family="term", model="4:" + p, bound=2) for p in p3]
        bounds = {"2 workers": "unbounded (30 min cap per model)", "3 workers": 3, "4 workers": 2}
    results = schedrun.run_models(b, jobs)
    agg = schedrun.absorb(c, b, results, "C12")
    c.coverage = {
        "states": agg["distinct_traces"],
        "transitions": agg["scheduling_points"],
        "traces_validated_against_impl": agg["executions"],
        "evaluations": agg["executions"],
        "distinct_nontrivial": agg["distinct_traces"],
        "samples": [{"model": r["model"], "bound": r["bound"], "result": r.get("result")} for r in results[:6]],
        "rule": "one loom model per (worker count, publish pattern); patterns = every rooted forest over <= 3 (4) work items with "
                "every local/shared assignment of the discovery edges + diamonds (two parents racing for one child's mark bit); "
                "workers run pop / try_terminate / process / try_mark / push(+wake_up) exactly like MarkingTask::run against the "
                "real Terminator. Oracles: try_terminate() == true only while no item is outstanding, no item processed after "
                "termination, every reachable item processed exactly once, no worker polls an empty pool twice after "
                "termination, the runtime's debug_asserts, loom deadlock / branch limit.",
        "exhaustive": not agg["incomplete"],
        "preemption_bounds": bounds,
        "incomplete_models": agg["incomplete"],
        "models": len(results),
    }
    c.assumptions = ["crossbeam's deques/injector and random stealing are abstracted into one shared pool under a mutex",
                     "the worker loop mirrors MarkingTask::run; the Terminator itself is the real code"]
    return c.finish()


def replay(path):
    return schedrun.replay(path)
