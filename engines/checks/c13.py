"""C13 -- running out of stack or heap ends in the documented trap, never in a crash.
Every combination of frame shape x recursion kind x thread, and of allocation entry point x element type x
hostile length, on both code generators; the same recursive program with a depth limit must finish normally."""
import json
import os
import shutil
import sys

import vcommon
sys.path.insert(0, os.path.join(vcommon.VERIF, "engines", "progspace"))
import core  # noqa: E402
import fam_limits  # noqa: E402


def frame_words(case):
    ftype, k = case["frame"]
    return {"locals": k, "struct": 8 ** k, "args": k, "temps": k}[ftype]


def bounded_depth(case):
    """Depth of the terminating variant of a recursion program, or None when its frames cannot be expected to fit the
    stack budget of managed code (threads.rs STACK_SIZE, 500 KB on every thread).  The frame of a function is a
    multiple of its source-level size: the optimizing generator keeps several copies of a by-value aggregate (measured:
    a 512-byte struct at depth 200 overflows 500 KB with boots and not with cannon), so the depth leaves a factor of 20.
    When the bounded program overflows as well, 'stack overflow' is simply the correct answer for it."""
    words = max(1, frame_words(case))
    depth = min(200, 400_000 // (words * 8 * 20))
    return depth if depth >= 2 else None


def judge(case, r, rb):
    """returns (class, text) or None"""
    end = core.ending(r)
    first = core.first_err_line(r)
    if r["timeout"]:
        return ("timeout", "did not terminate within the time limit")
    if r["signal"] is not None:
        return ("signal", "ended with %s instead of a trap" % end)
    if "panicked at" in r["err"]:
        return ("runtime-panic", "runtime panic: %s" % first)
    exp = case["expect"]
    if exp == "stack":
        if not (r["code"] == 107 and first == "stack overflow"):
            return ("wrong-ending", "%s / %r instead of the stack-overflow trap" % (end, first))
        if rb is not None and not (rb["code"] == 0 and rb["out"].strip().endswith("done true")):
            return ("bounded-run-fails", "the same program limited to a small depth ends with %s %r" % (core.ending(rb), core.first_err_line(rb)))
    elif exp == "oom":
        if not (r["code"] == 106 and first == "out of memory"):
            return ("wrong-ending", "%s / %r instead of the out-of-memory trap" % (end, first))
    elif exp == "impossible":
        ok = (r["code"], first) in ((106, "out of memory"), (109, "overflow"), (102, "assert failed"))
        if not ok:
            if r["code"] == 0:
                return ("bogus-success", "request of impossible size succeeded: %r" % r["out"].splitlines()[-1:])
            return ("wrong-ending", "%s / %r instead of a documented trap" % (end, first))
    elif exp == "ok":
        if r["code"] != 0 or not r["out"].strip().splitlines()[-1:][0].startswith("done"):
            return ("garbage-not-reclaimed", "garbage-only allocation ended with %s / %r" % (end, first))
    return None


def main(tier):
    c = vcommon.Check("C13", tier, "exploration")
    bindir = vcommon.build_plain(need_boots=True)
    tc = core.Toolchain(bindir, vcommon.build_fast(need_boots=True))
    scratch = vcommon.scratch_dir("c13")
    quick = tier == "quick"
    try:
        cases = fam_limits.recursion_cases(quick) + fam_limits.heap_cases(quick)
        collectors = ["copy"] if quick else ["copy", None, "sweep"]
        jobs = []
        boots_skipped = []
        for i, case in enumerate(cases):
            d = os.path.join(scratch, "p%d" % i)
            os.makedirs(d)
            src = os.path.join(d, "p.dora")
            open(src, "w").write(case["src"])
            for be in ("cannon", "boots"):
                if be == "boots" and case["expect"] == "stack" and frame_words(case) > 4096:
                    boots_skipped.append(case["name"])   # minutes of compile time per program in the optimizing compiler
                    continue
                for gc in (collectors if case["expect"] in ("stack", "oom", "ok") else ["copy"]):
                    jobs.append((i, case, src, be, gc))

        def work(job):
            i, case, src, be, gc = job
            exe = src[:-5] + "-%s-%s" % (be, gc or "default")
            ok, err = tc.compile(src, exe, be, gc=gc, timeout=300)
            if not ok:
                return (job, None, None, err)
            r = core.run_exe(exe, flags=case.get("flags"), timeout=180)
            rb = core.run_exe(exe, [bounded_depth(case)], flags=case.get("flags"), timeout=180) \
                if case["expect"] == "stack" and bounded_depth(case) is not None else None
            return (job, r, rb, "")
        results = core.parallel(work, jobs, workers=8)
        evals = 0
        skipped = []
        by_case = {}
        for (i, case, src, be, gc), r, rb, err in results:
            if r is None:
                # the optimizing compiler is a Dora program with its own heap: running out of it on a huge function is a
                # resource limit of the compiler process, reported as such (never a verdict about the program)
                if be == "boots" and ("out of memory" in err or "stack overflow" in err or "compile timeout" in err):
                    skipped.append("%s [%s]" % (case["name"], be))
                    continue
                c.violation("c13:compile-failed:%s" % be, "%s does not compile with %s: %s" % (case["name"], be, err[-300:]),
                            {"case": case["name"], "source": case["src"], "stderr": err[-3000:]})
                continue
            evals += 1
            by_case.setdefault((i, gc), {})[be] = (r["code"], core.first_err_line(r))
            v = judge(case, r, rb)
            if v:
                cls, text = v
                key = "c13:%s:%s:%s" % (cls, case["name"], be)
                c.violation(key, "%s [%s, gc=%s]: %s" % (case["name"], be, gc or "swiper", text),
                            {"case": case["name"], "backend": be, "gc": gc, "source": case["src"], "flags": case.get("flags"),
                             "stdout": r["out"][-500:], "stderr": r["err"][-2000:]})
        # both generators must refuse impossible sizes the same way
        for (i, gc), d in by_case.items():
            if len(d) == 2 and d["cannon"] != d["boots"] and cases[i]["expect"] == "impossible":
                c.violation("c13:generators-differ:%s" % cases[i]["name"], "%s: cannon ends %s, boots ends %s" % (cases[i]["name"], d["cannon"], d["boots"]),
                            {"case": cases[i]["name"], "source": cases[i]["src"]})
        c.coverage = {
            "evaluations": evals,
            "distinct_nontrivial": len(cases),
            "rule": "recursion: frame shape (k Int64 locals, by-value struct of 8^j words, many arguments, deep expression temporaries) x "
                    "recursion kind (direct, mutual, through lambda, trait object, generic) x thread (main, spawned[, spawned from spawned]) "
                    "-- must end with status 107 'stack overflow', and the same program limited to depth 200 must finish; heap: entry point "
                    "(Array::zero/fill, Vec::new_with_capacity/reserve) x element type x hostile length (-1, min, 2^31, 2^60, 2^61+1, max) -- "
                    "must end in a documented trap, identically for both generators, never success with a bogus length; live growth beyond "
                    "a 16M heap must trap 106; garbage-only allocation of many times the heap must finish. x both code generators x collectors.",
            "samples": [{"case": x["name"], "expect": x["expect"]} for x in (cases[0], cases[len(cases) // 2], cases[-1])],
            "exhaustive": True,
            "programs": len(cases),
            "collectors": [g or "swiper" for g in collectors],
            "skipped_compiler_resource_limit": skipped,
            "not_compiled_with_boots_frame_over_4096_words": boots_skipped,
        }
        c.assumptions = ["a compile failure of the optimizing generator caused by its own heap limit on a huge generated function is a "
                         "resource limit of the compiler process, listed under skipped_compiler_resource_limit"]
        return c.finish()
    finally:
        shutil.rmtree(scratch, ignore_errors=True)


def replay(path):
    print(json.dumps(json.load(open(path)), indent=1)[:5000])
    return 0
