"""C18 -- packages and bytecode survive being written and read back.

Bounded-exhaustive enumeration (fault_enumeration) in four parts:
 1. bytecode codec: every emit method of the real BytecodeWriter x boundary operands, every ordered pair of
    instruction kinds, jumps over padding, jump tables, constant pools and register files on both sides of
    every width boundary, read back with the real reader and compared with an independent model
    (engines/seqmc/src/codec.rs);
 2. program codec: real packages decode, re-encode to the same bytes, dump identically and equal the
    program the front end built in-process (engines/seqmc/src/pkgcodec.rs);
 3. two paths: source -> executable vs. source -> package -> executable, assembly and executables
    byte-identical, executables behave identically;
 4. damage: every truncation length / single-bit flip of declared windows of real package files, first
    through the real decoder in-process (one process per shard, address-space limit), then through the real
    code generator processes for every distinct outcome class and a declared subset.
"""
import hashlib
import json
import os
import re
import shutil
import subprocess
import sys
import time

import vcommon
import seq
from vcommon import MachineryError, REPO, VERIF

sys.path.insert(0, os.path.join(VERIF, "engines", "progspace"))

AS_LIMIT = 2 << 30          # address-space limit for decoder shards and code generator processes
TOOL_TIMEOUT = 60
KEY_PANIC = "c18:generator-panics-on-decodable-damage:%s"

RICH = r'''
use std::collections::Vec;
use std::collections::HashMap;

const LIMIT: Int64 = 100000;
let mut counter: Int64 = 3;

enum Shape { Circle(Float64), Rect(Float64, Float64), Empty }
struct Point { x: Int64, y: Int64 }
class Node[T] { value: T, next: Option[Node[T]] }
trait Area { fn area(): Float64; fn name(): String { "shape" } }
impl Area for Shape {
  fn area(): Float64 {
    match self { Shape::Circle(r) => 3.0 * r * r, Shape::Rect(a, b) => a * b, Shape::Empty => 0.0 }
  }
}
impl Area for Point { fn area(): Float64 { (self.x * self.y).to_float64() } fn name(): String { "point" } }
fn total[T: Area](xs: Array[T]): Float64 { let mut s = 0.0; for x in xs { s = s + x.area(); } s }
fn classify(n: Int64): String {
  match n { 0 => "zero", 1 => "one", 2 => "two", 3 => "three", 4 => "four", 5 => "five", _ => "many" }
}
fn collatz(mut n: Int64): Int64 {
  let mut steps = 0;
  while n != 1 { if n % 2 == 0 { n = n / 2; } else { n = 3 * n + 1; } steps = steps + 1; if steps > LIMIT { break; } }
  steps
}
fn length[T](n: Option[Node[T]]): Int64 { let mut c = 0; let mut cur = n; while cur.is_some() { c = c + 1; cur = cur.get_or_panic().next; } c }
fn apply(f: (Int64): Int64, x: Int64): Int64 { f(x) }
fn main() {
  let shapes = Array[Shape]::new(Shape::Circle(1.5), Shape::Rect(2.0, 4.5), Shape::Empty);
  println("${total[Shape](shapes)}");
  let d: Area = Point(x = 3, y = 4) as Area;
  println("${d.area()} ${d.name()}");
  let mut i = 0;
  while i < 8 { println(classify(i)); i = i + 1; }
  println("${collatz(27)} ${collatz(97)}");
  let n = Node[Int64](value = 1, next = Some[Node[Int64]](Node[Int64](value = 2, next = None[Node[Int64]])));
  println("${length[Int64](Some[Node[Int64]](n))}");
  let k = counter;
  println("${apply(|x: Int64|: Int64 { x * k + 1 }, 14)}");
  counter = counter + 40;
  let t = (counter, "tuple", 'c', 2.5f32, 200u8, true);
  println("${t.0} ${t.1} ${t.2} ${t.3} ${t.4} ${t.5}");
  let v = Vec[Int64]::new(); let mut j = 0; while j < 300 { v.push(j * j); j = j + 1; }
  let m = HashMap[Int64, String]::new(); m.insert(7, "seven"); m.insert(300, "three hundred");
  println("${v(299)} ${v.size()} ${m.get(300).get_or_panic()} ${m.contains(8)}");
  println("${(1i32 << 5i32)} ${-17 >> 2i32} ${-17 >>> 60i32} ${7 & 12} ${7 | 8} ${7 ^ 5} ${!true} ${2.5 * 4.0} ${10 / 3} ${10 % 3}");
  let s = "strings with umlauts äö and a smiley 😀";
  println("${s.size()} ${s == "x"}");
}
'''


def emit_methods():
    text = open(os.path.join(REPO, "dora-bytecode", "src", "writer.rs"), encoding="utf-8").read()
    return re.findall(r"pub fn emit_([a-z0-9_]+)\s*\(", text)


def opcode_count():
    text = open(os.path.join(REPO, "dora-bytecode", "src", "data.rs"), encoding="utf-8").read()
    m = re.search(r"pub enum BytecodeOpcode \{(.*?)\n\}", text, re.S)
    return len(re.findall(r"^\s*([A-Z]\w*),", m.group(1), re.M)) if m else 0


def build_harness():
    """The seqmc crate names /repo by path; for another source tree (VERIF_REPO) build a copy that names that tree."""
    if os.path.realpath(REPO) == "/repo":
        return seq.build_seqmc()
    src = os.path.join(VERIF, "engines", "seqmc")
    dst = os.path.join(vcommon.BUILD, "seqmc-src")
    os.makedirs(vcommon.BUILD, exist_ok=True)
    shutil.rmtree(dst, ignore_errors=True)
    shutil.copytree(src, dst, ignore=shutil.ignore_patterns("target"))
    ct = os.path.join(dst, "Cargo.toml")
    open(ct, "w").write(open(os.path.join(src, "Cargo.toml")).read().replace('"/repo/', '"%s/' % REPO.rstrip("/")))
    d = vcommon.cargo_build_harness(dst, variant="h-seqmc")
    return os.path.join(d, "seqmc")


def tool_env(scratch):
    e = dict(os.environ)
    e["RUST_BACKTRACE"] = "0"
    e["DORA_FLAGS"] = "--gc-worker 1"
    e["TMPDIR"] = os.path.join(scratch, "tmp")
    os.makedirs(e["TMPDIR"], exist_ok=True)
    return e


def sha(path):
    h = hashlib.sha256()
    with open(path, "rb") as f:
        for blk in iter(lambda: f.read(1 << 20), b""):
            h.update(blk)
    return h.hexdigest()


# ---------------------------------------------------------------------------------------------
# packages

def package_sources(scratch, tier):
    """(name, source path, mode, inline source or None) of every program that is turned into a package."""
    out = []
    srcdir = os.path.join(scratch, "src")
    os.makedirs(srcdir, exist_ok=True)

    def gen(name, text):
        p = os.path.join(srcdir, name + ".dora")
        open(p, "w").write(text)
        out.append({"name": name, "src": p, "mode": "plain", "text": text})
    gen("hello", 'fn main() { println("hi"); }\n')
    gen("rich", RICH)
    # units of the C01 program families (the packages C01 compiles)
    import core
    from checks import c01
    fams = c01.families("quick")
    cases = []
    for _, cs in fams:
        cases += cs[:: max(1, len(cs) // (150 if tier == "quick" else 600))]
    units = core.pack(cases, per_unit=400)
    for u in units[: (1 if tier == "quick" else 4)]:
        gen("unit%d" % u.uid, u.source())
    # the repository's runnable corpus
    import corpus
    ents = [e for e in corpus.entries() if not e.ignore and not e.compile_args and not e.expect_fail and e.src == e.path]
    step = 40 if tier == "quick" else 4
    for e in ents[::step]:
        out.append({"name": "rt:" + e.rel, "src": e.path, "mode": "plain", "text": None})
    out.append({"name": "boots", "src": os.path.join(REPO, "pkgs", "boots", "boots.dora"), "mode": "boots", "text": None})
    return out


def compile_package(bindir, scratch, ent, outdir=None):
    outdir = outdir or os.path.join(scratch, "pkg")
    os.makedirs(outdir, exist_ok=True)
    out = os.path.join(outdir, "%s-%s.dora-package" % (re.sub(r"[^A-Za-z0-9]+", "_", ent["name"]),
                                                        hashlib.sha1(ent["name"].encode()).hexdigest()[:8]))
    cmd = [os.path.join(bindir, "dora"), "compile", "-c", ent["src"], "-o", out]
    if ent["mode"] == "boots":
        cmd.append("--internal-compile-boots")
    p = vcommon.run(cmd, env=tool_env(scratch), timeout=600)
    if p.returncode != 0 or not os.path.exists(out):
        return None, (p.stderr + p.stdout).decode("utf-8", "replace")[-1500:]
    return out, ""


def make_packages(c, bindir, scratch, tier):
    import core
    ents = package_sources(scratch, tier)

    def work(e):
        e["pkg"], e["err"] = compile_package(bindir, scratch, e)
        return e
    ents = core.parallel(work, ents)
    good = []
    skipped = []
    for e in ents:
        if e["pkg"] is None:
            if e["text"] is not None or e["mode"] == "boots":
                raise MachineryError("package for %s cannot be built: %s" % (e["name"], e["err"]))
            skipped.append(e["name"])   # corpus file that is not a stand-alone program
        else:
            e["size"] = os.path.getsize(e["pkg"])
            e["sha"] = sha(e["pkg"])
            good.append(e)
    return good, skipped


# ---------------------------------------------------------------------------------------------
# part 1 + 2: in-process codecs

def absorb(c, rep, part, extra_replay=None):
    for key, f in rep["findings"].items():
        if key.startswith("c18:machinery"):
            raise MachineryError("%s: %s %s" % (key, f["example"][:300], f["detail"][:600]))
        r = {"part": part, "key": key, "count": f["count"], "example": f["example"], "detail": f["detail"]}
        if extra_replay:
            r.update(extra_replay(f["example"]) or {})
        c.violation(key, "%s (x%d) e.g. %s :: %s" % (part, f["count"], f["example"][:200], f["detail"][:300]), r)
    if rep.get("hang"):
        c.violation("c18:hang:" + part, "case did not finish: %r" % rep["hang"], {"part": part, "example": rep["hang"]})


def part_codec(c, harness, tier):
    methods = emit_methods()
    rep = seq.run_seqmc(harness, "codec", {"methods": ",".join(methods), "tier": tier, "hang-s": 900}, timeout=6000)
    absorb(c, rep, "codec")
    cn = rep["counters"]
    uncovered = [m for m in rep["extra"].get("uncovered", "").split(",") if m]
    return {
        "codec_cases": rep["evaluations"],
        "codec_nontrivial": cn.get("cases_multibyte_or_jump", 0),
        "emit_methods_in_source": len(methods),
        "emit_methods_driven": cn.get("methods_driven", 0),
        "opcodes_in_source": opcode_count(),
        "uncovered": uncovered,
        "instruction_pairs": cn.get("instruction_pairs", 0),
        "pair_cases": cn.get("cases_pair", 0),
        "jump_cases": cn.get("cases_jump", 0),
        "switch_cases": cn.get("cases_switch", 0),
        "pool_cases": cn.get("cases_pool", 0),
        "size_cases": cn.get("cases_sizes", 0),
        "single_instruction_cases": cn.get("cases_single", 0),
        "instructions_read_back": cn.get("instructions_read_back", 0),
        "cases_code_over_64k": cn.get("cases_code_over_64k", 0),
        "operand_boundaries": [int(x) for x in rep["extra"]["bounds"].split(",")],
        "padding_bytes": [int(x) for x in rep["extra"]["pads"].split(",")],
    }, rep["samples"]


def part_program(c, harness, pkgs, scratch):
    lst = os.path.join(scratch, "pkgs.tsv")
    byname = {}
    with open(lst, "w") as f:
        for e in pkgs:
            f.write("%s\t%s\t%s\t%s\n" % (e["name"], e["pkg"], e["src"], e["mode"]))
            byname[e["name"]] = e
    rep = seq.run_seqmc(harness, "pkg", {"list": lst, "hang-s": 900}, timeout=3000)

    def extra(example):
        e = byname.get(example.split(" function #")[0])
        return {"name": e["name"], "src": e["src"], "mode": e["mode"], "text": e["text"]} if e else None
    absorb(c, rep, "program", extra)
    cn = rep["counters"]
    return {
        "packages": cn.get("packages", 0),
        "package_bytes": cn.get("package_bytes", 0),
        "programs_compared_with_original": cn.get("programs_compared_with_original", 0),
        "inprocess_bytes_equal_file": cn.get("inprocess_bytes_equal_file", 0),
        "functions_with_bytecode": cn.get("functions_with_bytecode", 0),
        "real_instructions_read_back": cn.get("real_instructions_read_back", 0),
        "distinct_opcodes_in_real_code": cn.get("distinct_opcodes_in_real_code", 0),
        "trailing_byte_refused": cn.get("trailing_byte_refused", 0),
    }


# ---------------------------------------------------------------------------------------------
# part 1b: the reader written in Dora (pkgs/boots/bytecode/reader.dora) on the same bytes

def dora_twin_module(cases_bin):
    """Source of a Dora test module that reads cases.bin, decodes every function with the boots package's own
    BytecodeIterator and prints one checksum line per case.  The match arms are generated from the enum in
    the CURRENT pkgs/boots/bytecode/instruction.dora."""
    text = open(os.path.join(REPO, "pkgs", "boots", "bytecode", "instruction.dora"), encoding="utf-8").read()
    m = re.search(r"pub enum BytecodeInstruction \{(.*?)\n\}", text, re.S)
    if not m:
        raise MachineryError("cannot find enum BytecodeInstruction in instruction.dora")
    arms = []
    for line in m.group(1).splitlines():
        line = line.strip().rstrip(",")
        if not line or line.startswith("//"):
            continue
        mm = re.match(r"^(\w+)(?:\((.*)\))?$", line)
        if not mm:
            raise MachineryError("cannot parse enum variant %r" % line)
        name, fields = mm.group(1), mm.group(2)
        if not fields:
            arms.append("            BytecodeInstruction::%s => h," % name)
            continue
        # split on commas outside brackets
        parts, depth, cur = [], 0, ""
        for ch in fields:
            if ch == "[":
                depth += 1
            if ch == "]":
                depth -= 1
            if ch == "," and depth == 0:
                parts.append(cur.strip())
                cur = ""
            else:
                cur += ch
        if cur.strip():
            parts.append(cur.strip())
        expr = "h"
        names = []
        for k, ty in enumerate(parts):
            v = "f%d" % k
            names.append(v)
            if ty in ("BytecodeRegister", "ConstPoolId", "GlobalId", "ConstId"):
                expr = "mix(%s, %s.0.to_int64() & 4294967295)" % (expr, v)
            elif ty == "Int32":
                expr = "mix(%s, %s.to_int64() & 4294967295)" % (expr, v)
            elif ty == "UInt8":
                expr = "mix(%s, %s.to_int64())" % (expr, v)
            elif ty == "Array[BytecodeRegister]":
                expr = "mix_regs(%s, %s)" % (expr, v)
            else:
                raise MachineryError("instruction.dora: operand type %r of %s is not known to the twin driver" % (ty, name))
        arms.append("            BytecodeInstruction::%s(%s) => %s," % (name, ", ".join(names), expr))
    return """use package::bytecode::data::BytecodeRegister;
use package::bytecode::instruction::BytecodeInstruction;
use package::bytecode::reader::BytecodeIterator;

fn mix(h: Int64, v: Int64): Int64 { (h ^ v).wrapping_mul(1099511628211) }

fn mix_regs(h0: Int64, regs: Array[BytecodeRegister]): Int64 {
    let mut h = mix(h0, regs.size());
    for r in regs { h = mix(h, r.0.to_int64() & 4294967295); }
    h
}

@Test
fn verif_codec_twin() {
    let data = std::io::File::new("%s").read_as_bytes().get_or_panic();
    let mut pos = 0;
    let mut idx = 0;
    while pos < data.size() {
        let n = data(pos).to_int64() | (data(pos + 1).to_int64() << 8i32) | (data(pos + 2).to_int64() << 16i32)
            | (data(pos + 3).to_int64() << 24i32);
        pos = pos + 4;
        let code = Array[UInt8]::zero(n);
        let mut k = 0;
        while k < n { code(k) = data(pos + k); k = k + 1; }
        pos = pos + n;
        let mut h: Int64 = 1469598103934665603;
        let mut count = 0;
        for info in BytecodeIterator::new(code) {
            h = mix(h, info.start);
            h = mix(h, info.opcode.to_int64());
            h = mix(h, info.size);
            h = match info.op {
%s
            };
            count = count + 1;
        }
        println("VERIF-TWIN ${idx} ${count} ${h}");
        idx = idx + 1;
    }
}
""" % (cases_bin, "\n".join(arms))


def part_twin(c, harness, bindir, scratch, tier, case=None):
    """Same bytes, other reader: a scratch copy of pkgs/boots with a generated test module, compiled with the baseline
    generator as a unit-test binary."""
    d = os.path.join(scratch, "twin")
    os.makedirs(d)
    cases_bin = os.path.join(d, "cases.bin")
    targs = {"tier": tier, "out-bin": cases_bin, "out-exp": os.path.join(d, "expected.txt"), "out-cases": os.path.join(d, "cases.txt")}
    if case is not None:
        targs["case"] = case
    rep = seq.run_seqmc(harness, "twin-gen", targs, timeout=1800)
    boots = os.path.join(d, "boots")
    shutil.copytree(os.path.join(REPO, "pkgs", "boots"), boots)
    bc = os.path.join(boots, "bytecode.dora")
    src = open(bc).read()
    if "pub mod reader;" not in src:
        raise MachineryError("pkgs/boots/bytecode.dora has no `pub mod reader;` to hang the twin driver next to")
    open(bc, "w").write(src.replace("pub mod reader;", "pub mod reader;\nmod verif_driver;", 1))
    open(os.path.join(boots, "bytecode", "verif_driver.dora"), "w").write(dora_twin_module(cases_bin))
    exe = os.path.join(d, "boots-tests")
    p = vcommon.run([os.path.join(bindir, "dora"), "compile", "--internal-compile-boots", "--cannon", "--test",
                     os.path.join(boots, "boots.dora"), "-o", exe], env=tool_env(scratch), timeout=900, cwd=d)
    if p.returncode != 0:
        raise MachineryError("the boots package with the twin driver does not compile: %s" % (
            (p.stderr + p.stdout).decode("utf-8", "replace")[-3000:]))
    env = tool_env(scratch)
    env.pop("DORA_FLAGS", None)
    try:
        r = subprocess.run([exe, "verif_codec_twin"], stdout=subprocess.PIPE, stderr=subprocess.PIPE, env=env, timeout=1500, cwd=d)
    except subprocess.TimeoutExpired:
        raise MachineryError("twin test binary timed out")
    got = {}
    for line in r.stdout.decode("utf-8", "replace").splitlines():
        m = re.search(r"VERIF-TWIN (\d+) (\d+) (-?\d+)", line)   # (the runner prints "test <name> ... " in front of the first)
        if m:
            got[int(m.group(1))] = (int(m.group(2)), int(m.group(3)))
    texts = {}
    for line in open(os.path.join(d, "cases.txt"), encoding="utf-8"):
        i, t = line.rstrip("\n").split("\t", 1)
        texts[int(i)] = t
    total = 0
    bad = 0
    viols = []
    for line in open(os.path.join(d, "expected.txt")):
        i, n, h = line.split()
        i, n, h = int(i), int(n), int(h)
        total += 1
        if got.get(i) != (n, h):
            bad += 1
            t = texts.get(i, "?")
            kind = t.split(";")[-2 if t.count(";") else 0].split()[0] if t.strip() else "?"
            viols.append(("c18:twin:dora-reader-disagrees:%s" % kind,
                          "case %d (%s): the Rust reader sees %d instructions (checksum %d), the Dora reader %s" % (
                              i, t[:160], n, h, got.get(i)),
                          {"part": "twin", "example": t, "rust": [n, h], "dora": got.get(i),
                           "stderr": r.stderr.decode("utf-8", "replace")[-800:]}))
    if total == 0 or (not got and total):
        raise MachineryError("twin test printed nothing (exit %s): %s" % (r.returncode, (r.stderr + r.stdout).decode("utf-8", "replace")[-1500:]))
    return {"twin_cases": total, "twin_instructions": rep["counters"].get("twin_instructions", 0), "twin_disagreements": bad}, viols


# ---------------------------------------------------------------------------------------------
# part 3: two paths

def two_paths_one(bindir, scratch, ent, backend, gc, full, target=None):
    """Returns (problem or None, evaluations)."""
    d = os.path.join(scratch, "tp", re.sub(r"[^A-Za-z0-9]+", "_", "%s-%s-%s-%s" % (ent["name"], backend, gc, target)))
    os.makedirs(d, exist_ok=True)
    env = tool_env(scratch)
    flags = []
    if backend == "cannon":
        flags.append("--cannon")
    if gc:
        flags.append("--gc=%s" % gc)
    if target:
        flags += ["--target", target]
    if ent["mode"] == "boots":
        flags.append("--internal-compile-boots")
    dora = os.path.join(bindir, "dora")
    evals = 0

    def run(inp, out, more):
        return vcommon.run([dora, "compile", inp, "-o", out] + flags + more, env=env, timeout=900, cwd=d)
    a = run(ent["src"], os.path.join(d, "direct"), ["-S"])
    b = run(ent["pkg"], os.path.join(d, "viapkg"), ["-S"])
    if a.returncode != 0 or b.returncode != 0:
        if a.returncode != 0 and b.returncode != 0 and backend == "boots":
            return None, 0   # the optimizing generator may refuse a program (resource limits): both paths alike
        return "compile exit status differs or fails: direct %d, via package %d: %s" % (
            a.returncode, b.returncode, (a.stderr + b.stderr).decode("utf-8", "replace")[-600:]), 1
    ha, hb = sha(os.path.join(d, "direct.s")), sha(os.path.join(d, "viapkg.s"))
    evals += 1
    if ha != hb:
        return "assembly differs: direct %s, via package %s" % (ha[:16], hb[:16]), evals
    for f in ("direct.s", "viapkg.s"):
        os.remove(os.path.join(d, f))
    if full and not target and ent["mode"] != "boots":
        a = run(ent["src"], os.path.join(d, "direct.exe"), [])
        b = run(ent["pkg"], os.path.join(d, "viapkg.exe"), [])
        if a.returncode != 0 or b.returncode != 0:
            return "linking fails: direct %d, via package %d: %s" % (
                a.returncode, b.returncode, (a.stderr + b.stderr).decode("utf-8", "replace")[-600:]), evals
        ha, hb = sha(os.path.join(d, "direct.exe")), sha(os.path.join(d, "viapkg.exe"))
        evals += 1
        if ha != hb:
            return "executables differ: direct %s, via package %s" % (ha[:16], hb[:16]), evals
        runs = []
        for exe in ("direct.exe", "viapkg.exe"):
            e2 = dict(env)
            e2.pop("DORA_FLAGS", None)
            try:
                r = subprocess.run([os.path.join(d, exe), "0"], stdout=subprocess.PIPE, stderr=subprocess.PIPE, timeout=120, env=e2, cwd=d)
                runs.append((r.returncode, r.stdout, r.stderr))
            except subprocess.TimeoutExpired:
                runs.append(("timeout", b"", b""))
        evals += 1
        if runs[0] != runs[1]:
            return "executables behave differently: %r vs %r" % (runs[0][:2], runs[1][:2]), evals
        for f in ("direct.exe", "viapkg.exe"):
            os.remove(os.path.join(d, f))
    return None, evals


def part_two_paths(c, bindir, pkgs, scratch, tier):
    import core
    gen = [e for e in pkgs if e["text"] is not None]
    rt = [e for e in pkgs if e["name"].startswith("rt:")]
    jobs = []
    if tier == "quick":
        # linking against the debug runtime costs seconds: executables for the generated programs only
        for e in gen:
            unit = e["name"].startswith("unit")
            jobs.append((e, ("cannon", None, True, None)))
            jobs.append((e, ("cannon", "copy", False, None)))
            jobs.append((e, ("cannon", None, False, "arm64")))
            if not unit:
                jobs.append((e, ("boots", None, e["name"] == "hello", None)))
        for e in rt[::3]:
            jobs.append((e, ("cannon", None, False, None)))
        for e in rt[1::6]:
            jobs.append((e, ("boots", None, False, None)))
    else:
        for e in gen:
            unit = e["name"].startswith("unit")
            for g in (None, "zero", "copy", "sweep"):
                jobs.append((e, ("cannon", g, g in (None, "copy") and e["name"] != "unit3", None)))
                if not unit or g is None:
                    jobs.append((e, ("boots", g, not unit and g in (None, "copy"), None)))
            jobs.append((e, ("cannon", None, False, "arm64")))
            if not unit:
                jobs.append((e, ("boots", None, False, "arm64")))
        for e in rt[::3]:
            jobs.append((e, ("cannon", None, False, None)))
        for e in rt[1::3]:
            jobs.append((e, ("boots", None, False, None)))
        for e in rt[2::9]:
            jobs.append((e, ("cannon", "copy", True, None)))
    boots_ent = [e for e in pkgs if e["mode"] == "boots"]
    if boots_ent:
        jobs.append((boots_ent[0], ("cannon", None, False, None)))

    def work(job):
        e, (backend, gc, full, target) = job
        t0 = time.time()
        r = two_paths_one(bindir, scratch, e, backend, gc, full, target)
        if time.time() - t0 > 8:
            vcommon.log("c18: two paths %s %s took %.1fs" % (e["name"], (backend, gc, full, target), time.time() - t0))
        return job, r
    evals = 0
    for (e, cfg), (problem, n) in core.parallel(work, jobs):
        evals += n
        if problem:
            what = problem.split(":")[0]
            c.violation("c18:two-paths:%s:%s" % (what.replace(" ", "-"), cfg[0]),
                        "%s [%s gc=%s target=%s]: %s" % (e["name"], cfg[0], cfg[1], cfg[3], problem),
                        {"part": "two-paths", "name": e["name"], "src": e["src"], "mode": e["mode"], "text": e["text"],
                         "backend": cfg[0], "gc": cfg[1], "full": cfg[2], "target": cfg[3]})
    return {"two_path_comparisons": evals, "two_path_configurations": len(jobs)}


# ---------------------------------------------------------------------------------------------
# part 4: damage

def limited(cmd):
    """The command under the address-space limit (set by a shell: no preexec_fn in a threaded parent)."""
    return ["sh", "-c", 'ulimit -c 0; ulimit -v %d; exec "$@"' % (AS_LIMIT // 1024), "sh"] + list(cmd)


class Shard:
    def __init__(self, harness, pkg, mode, params, k, n, workdir):
        self.base = [harness, "damage", "--pkg", pkg, "--mode", mode, "--shard", str(k), "--shards", str(n)]
        for a, b in params.items():
            self.base += ["--" + a, str(b)]
        self.out = os.path.join(workdir, "res-%d.tsv" % k)
        self.progress = os.path.join(workdir, "progress-%d.txt" % k)
        self.rep = os.path.join(workdir, "rep-%d.json" % k)
        self.base += ["--out", self.out, "--progress", self.progress]
        self.proc = None
        self.aborted = []      # (index, kind, stderr tail)
        self.last = None
        self.last_change = time.time()
        self.done = False

    def start(self, after=None):
        cmd = list(self.base)
        if after is not None:
            cmd += ["--start-after", str(after)]
        env = dict(os.environ)
        env["SEQMC_OUT"] = self.rep
        env["RUST_BACKTRACE"] = "0"
        self.errf = open(self.out + ".err", "wb")
        self.proc = subprocess.Popen(limited(cmd), stdout=subprocess.DEVNULL, stderr=self.errf, env=env)
        self.last_change = time.time()

    def current(self):
        try:
            t = open(self.progress).read().strip()
        except OSError:
            return None
        return t or None

    def poll(self, hang_after=90):
        if self.done:
            return
        rc = self.proc.poll()
        cur = self.current()
        if cur != self.last:
            self.last, self.last_change = cur, time.time()
        if rc is None:
            if time.time() - self.last_change > hang_after and cur not in (None, "done"):
                self.proc.kill()
                self.proc.wait()
                self.errf.close()
                self.aborted.append((int(cur), "hang", ""))
                self.start(after=int(cur))
            return
        self.errf.close()
        if rc == 0 and cur == "done":
            self.done = True
            return
        err = open(self.out + ".err", "rb").read().decode("utf-8", "replace")
        if cur in (None, "done") or not cur.isdigit():
            raise MachineryError("damage shard failed outside a case (exit %s): %s" % (rc, err[-1500:]))
        if len(self.aborted) > 2000:
            raise MachineryError("damage shard keeps dying: %s" % err[-1500:])
        self.aborted.append((int(cur), "exit%s" % rc, err[:400]))
        self.start(after=int(cur))


def enumerate_damage(harness, pkg, mode, params, workdir, shards):
    """Runs the declared index set through the real decoder.  Returns ({index: class}, [(index, kind, stderr)])."""
    os.makedirs(workdir, exist_ok=True)
    ss = [Shard(harness, pkg, mode, params, k, shards, workdir) for k in range(shards)]
    for s in ss:
        s.start()
    while not all(s.done for s in ss):
        time.sleep(0.05)
        for s in ss:
            s.poll()
    classes = {}
    aborted = []
    for s in ss:
        with open(s.out) as f:
            for line in f:
                i, cls = line.rstrip("\n").split("\t", 1)
                classes[int(i)] = cls
        aborted += s.aborted
    return classes, aborted


def damaged_bytes(orig, mode, idx):
    if mode == "trunc":
        return orig[:idx]
    b = bytearray(orig)
    b[idx // 8] ^= 1 << (idx % 8)
    return bytes(b)


def norm_msg(m):
    s = re.sub(r"[0-9]", "#", m)
    while "##" in s:
        s = s.replace("##", "#")
    return s[:90]


def run_tool(bindir, tool, ent, data, scratch, tag, timeout=TOOL_TIMEOUT):
    """Runs one code generator (or the driver) on damaged package bytes.  Returns dict(kind, detail)."""
    d = os.path.join(scratch, "tool")
    os.makedirs(d, exist_ok=True)
    p = os.path.join(d, "%s.dora-package" % tag)
    out = os.path.join(d, "%s.out" % tag)
    open(p, "wb").write(data)
    if tool == "driver":
        cmd = [os.path.join(bindir, "dora"), "compile", p, "-S", "-o", out, "--cannon"]
    else:
        cmd = [os.path.join(bindir, "dora-%s-compiler" % tool), p, "-o", out + ".s"]
    if ent["mode"] == "boots":
        cmd.append("--internal-compile-boots")
    env = tool_env(scratch)
    try:
        import core
        r = core.run_group(limited(cmd), timeout, env=env)
        rc, err = r.returncode, (r.stderr + r.stdout).decode("utf-8", "replace")
    except subprocess.TimeoutExpired:
        rc, err = "timeout", ""
    for f in (p, out + ".s", out):
        try:
            os.remove(f)
        except OSError:
            pass
    lines = [l for l in err.strip().splitlines() if l.strip()]
    first = lines[0] if lines else ""
    if rc == "timeout":
        return {"kind": "timeout", "detail": "no result within %d s" % timeout, "first": ""}
    m = re.search(r"panicked at ([^\n]*)\n([^\n]*)", err)
    if m:
        site = re.sub(r":\d+:\d+:?$", "", m.group(1).strip())
        return {"kind": "panic", "detail": "%s: %s" % (site, norm_msg(m.group(2).strip())), "first": first, "rc": rc}
    if "memory allocation of" in err and "failed" in err:
        return {"kind": "alloc-abort", "detail": norm_msg(first), "first": first, "rc": rc}
    if isinstance(rc, int) and rc < 0:
        return {"kind": "signal", "detail": "signal %d: %s" % (-rc, first[:200]), "first": first, "rc": rc}
    if rc == 0:
        return {"kind": "accepted", "detail": "", "first": first, "rc": rc}
    if not first:
        return {"kind": "silent-failure", "detail": "exit %s without a message" % rc, "first": "", "rc": rc}
    return {"kind": "refused", "detail": norm_msg(first), "first": first, "rc": rc}


def judge(c, ent, mode, idx, cls, tool, res, sites):
    """Compares what a tool did with what the decoder said about the same bytes."""
    rp = {"part": "damage", "name": ent["name"], "src": ent["src"], "mode": ent["mode"], "text": ent["text"],
          "damage": mode, "index": idx, "decoder_class": cls, "tool": tool, "tool_result": res,
          "package_sha256": ent.get("sha")}
    where = "%s %s@%d via %s" % (ent["name"], mode, idx, tool)
    kind = res["kind"]
    if kind == "timeout":
        c.violation("c18:generator-hangs-on-damage:%s" % tool, "%s: %s" % (where, res["detail"]), rp)
    elif kind == "alloc-abort":
        c.violation("c18:decode-abort:memory-allocation", "%s: process aborted: %s" % (where, res["first"][:200]), rp)
    elif cls.startswith("err:"):
        if kind == "refused":
            want = cls[4:]
            # the driver reports the failing code generator; the generators print the decoder's message
            # (an empty file is refused by the file reader before the decoder sees it)
            if tool != "driver" and not res["detail"].startswith(want[:60]) and not (
                    mode == "trunc" and idx == 0 and res["detail"].startswith("missing encoded program input")):
                c.violation("c18:refusal-message-differs:%s" % tool, "%s: decoder says %r, tool says %r" % (where, want, res["detail"]), rp)
        elif kind == "accepted":
            c.violation("c18:undecodable-package-accepted:%s" % tool, "%s: decoder refuses (%s) but the tool succeeds" % (where, cls), rp)
        else:
            c.violation("c18:crash-on-undecodable-package:%s:%s" % (tool, kind), "%s: %s" % (where, res["detail"]), rp)
    elif cls in ("ok-same", "ok-noncanonical"):
        # the damaged bytes are a valid encoding of some (other) program: anything but a crash is fine
        if kind == "panic" or (tool == "driver" and kind == "refused" and "panicked" in res.get("first", "")):
            sites[res["detail"]] = sites.get(res["detail"], 0) + 1
            c.violation(KEY_PANIC % ("cannon" if tool == "driver" else tool), "%s: %s" % (where, res["detail"]), rp)
        elif kind in ("signal", "silent-failure"):
            c.violation("c18:generator-crash-on-decodable-damage:%s:%s" % (tool, kind), "%s: %s" % (where, res["detail"]), rp)
    else:
        # ok-diff / decoder panic: already violations of the decoder enumeration; record what the tool does
        pass


def part_damage(c, harness, bindir, pkgs, scratch, tier):
    import core
    byname = {e["name"]: e for e in pkgs}
    unit = [e for e in pkgs if e["name"].startswith("unit")]
    plans = []
    if tier == "quick":
        plans.append((byname["hello"], {"head": 8192, "tail": 8192, "stride": 64}, {"head": 4096, "tail": 1024, "stride": 211}))
        plans.append((byname["rich"], {"head": 1024, "tail": 1024, "stride": 509}, {"head": 256, "tail": 256, "stride": 1999}))
        plans.append((byname["boots"], {"head": 512, "tail": 512, "stride": 8192}, {"head": 64, "tail": 64, "stride": 65521}))
    else:
        plans.append((byname["hello"], {"head": 0, "tail": 0, "stride": 1}, {"head": 8192, "tail": 8192, "stride": 5}))
        plans.append((byname["rich"], {"head": 8192, "tail": 8192, "stride": 64}, {"head": 4096, "tail": 4096, "stride": 499}))
        for e in unit[:1]:
            plans.append((e, {"head": 8192, "tail": 8192, "stride": 64}, {"head": 1024, "tail": 1024, "stride": 1999}))
        rt = [e for e in pkgs if e["name"].startswith("rt:")]
        for e in rt[:2]:
            plans.append((e, {"head": 8192, "tail": 8192, "stride": 64}, {"head": 512, "tail": 512, "stride": 1999}))
        plans.append((byname["boots"], {"head": 8192, "tail": 8192, "stride": 64}, {"head": 2048, "tail": 512, "stride": 8191}))
    cov = {"truncation_points": 0, "bit_flips": 0, "decoder_outcome_classes": {}, "decoder_aborts": 0,
           "tool_runs": 0, "tool_outcomes": {}, "damage_plan": [], "flips_decoding_to_another_program": 0}
    sites = {}
    samples = []
    tool_jobs = []
    for ent, tp, fp in plans:
        orig = open(ent["pkg"], "rb").read()
        for mode, params in (("trunc", tp), ("flip", fp)):
            wd = os.path.join(scratch, "dmg", re.sub(r"[^A-Za-z0-9]+", "_", ent["name"]) + "-" + mode)
            classes, aborted = enumerate_damage(harness, ent["pkg"], mode, params, wd, vcommon.NCPU)
            shutil.rmtree(wd, ignore_errors=True)
            cov["truncation_points" if mode == "trunc" else "bit_flips"] += len(classes) + len(aborted)
            cov["damage_plan"].append({"package": ent["name"], "bytes": len(orig), "damage": mode, "first_bytes_every_index": params["head"],
                                       "last_bytes_every_index": params["tail"], "stride_elsewhere": params["stride"],
                                       "cases": len(classes) + len(aborted)})
            firsts = {}
            for i in sorted(classes):
                cls = classes[i]
                cov["decoder_outcome_classes"][cls] = cov["decoder_outcome_classes"].get(cls, 0) + 1
                if len(firsts.setdefault(cls, [])) < 2:
                    firsts[cls].append(i)
                if cls in ("ok-same", "ok-noncanonical"):
                    cov["flips_decoding_to_another_program"] += 1
                rp = {"part": "damage", "name": ent["name"], "src": ent["src"], "mode": ent["mode"], "text": ent["text"],
                      "damage": mode, "index": i, "decoder_class": cls, "tool": None, "package_sha256": ent.get("sha")}
                if cls == "ok-diff":
                    c.violation("c18:decode:wrong-program", "%s %s@%d decodes, but re-encoding the result gives other bytes" % (
                        ent["name"], mode, i), rp)
                elif cls.startswith("panic:"):
                    c.violation("c18:decode:" + cls, "%s %s@%d: the decoder panics" % (ent["name"], mode, i), rp)
                elif mode == "trunc" and not cls.startswith("err:"):
                    c.violation("c18:decode:truncated-package-accepted", "%s cut to %d bytes: %s" % (ent["name"], i, cls), rp)
            # every decoder death is confirmed (or not) with the real tool under the same address-space limit
            for i, kind, err in aborted:
                cov["decoder_aborts"] += 1
                tool_jobs.append((ent, orig, mode, i, "died:" + kind, "cannon"))
            # every distinct class (two representatives) through both generators and the driver
            for cls, idxs in firsts.items():
                for i in idxs:
                    # (the optimizing generator needs 10 s and more for packages of generated units and minutes for its
                    # own 1 MB package: baseline generator only for packages above 150 KB)
                    for tool in (("cannon", "driver") if ent["size"] > 150000 else ("cannon", "boots", "driver")):
                        tool_jobs.append((ent, orig, mode, i, cls, tool))
            # plus a declared subset of all cases through the baseline generator (and a thinner one through boots)
            allidx = sorted(classes)
            sub_c = 256 if tier == "quick" else 128
            if ent["mode"] == "boots":
                sub_c *= 2     # one run of a generator on the boots package takes seconds
            for n, i in enumerate(allidx):
                if n % sub_c == 0:
                    tool_jobs.append((ent, orig, mode, i, classes[i], "cannon"))
                if n % (sub_c * 8) == 1 and ent["size"] <= 150000:
                    tool_jobs.append((ent, orig, mode, i, classes[i], "boots"))
            if len(samples) < 6 and allidx:
                i = allidx[len(allidx) // 2]
                samples.append({"package": ent["name"], "damage": mode, "index": i, "decoder_says": classes[i]})
    seen = set()
    uniq = []
    for j in tool_jobs:
        k = (j[0]["name"], j[2], j[3], j[5])
        if k not in seen:
            seen.add(k)
            uniq.append(j)

    def work(job):
        ent, orig, mode, idx, cls, tool = job
        tag = "%s-%s-%d-%s-%d" % (re.sub(r"[^A-Za-z0-9]+", "_", ent["name"]), mode, idx, tool, os.getpid())
        return job, run_tool(bindir, tool, ent, damaged_bytes(orig, mode, idx), scratch, tag)
    results = core.parallel(work, uniq)
    # replay first: a run that did not finish or died without the decoder's message is repeated on its own (the
    # machine may just have been busy); only what happens twice is reported
    confirmed = []
    for job, res in results:
        if res["kind"] in ("timeout", "signal", "silent-failure"):
            ent, orig, mode, idx, cls, tool = job
            tag = "again-%s-%s-%d-%s" % (re.sub(r"[^A-Za-z0-9]+", "_", ent["name"]), mode, idx, tool)
            res2 = run_tool(bindir, tool, ent, damaged_bytes(orig, mode, idx), scratch, tag, timeout=10 * TOOL_TIMEOUT)
            if res2["kind"] != res["kind"]:
                cov["tool_runs_not_reproduced"] = cov.get("tool_runs_not_reproduced", 0) + 1
            res = res2
        confirmed.append((job, res))
    for (ent, orig, mode, idx, cls, tool), res in confirmed:
        cov["tool_runs"] += 1
        k = "%s:%s" % (tool, res["kind"])
        cov["tool_outcomes"][k] = cov["tool_outcomes"].get(k, 0) + 1
        if cls.startswith("died:"):
            rp = {"part": "damage", "name": ent["name"], "src": ent["src"], "mode": ent["mode"], "text": ent["text"],
                  "damage": mode, "index": idx, "decoder_class": cls, "tool": tool, "tool_result": res,
                  "package_sha256": ent.get("sha")}
            if cls == "died:hang":
                c.violation("c18:decode:hang", "%s %s@%d: the decoder does not finish" % (ent["name"], mode, idx), rp)
            elif res["kind"] in ("alloc-abort", "signal", "panic", "timeout"):
                c.violation("c18:decode-abort:memory-allocation" if res["kind"] == "alloc-abort" else "c18:decode-abort:" + res["kind"],
                            "%s %s@%d: decoder process died and %s dies too: %s" % (ent["name"], mode, idx, tool, res["first"][:200]), rp)
            else:
                cov["address_space_limit_artifacts"] = cov.get("address_space_limit_artifacts", 0) + 1
            continue
        judge(c, ent, mode, idx, cls, tool, res, sites)
    cov["generator_panic_sites_on_decodable_damage"] = sites
    return cov, samples


# ---------------------------------------------------------------------------------------------

def part_wire(c, bindir, scratch, tier):
    """Constants of every kind and bit-pattern class cross front end -> package -> code generator (the Rust reader of the
    baseline generator and the Dora reader pkgs/boots/deserializer.dora of the optimizing one) and are printed by the
    compiled program: every one must read back as it was written.  Float values are printed as bit patterns."""
    import struct
    ints64 = [0, 1, -1, 127, 128, 255, 256, 32767, 32768, 65535, 65536, 2 ** 31 - 1, 2 ** 31, 2 ** 31 + 1, 2 ** 32 - 1, 2 ** 32,
              2 ** 32 + 1, 0x80000000FFFFFFFF - 2 ** 64, 0x7FFFFFFF80000000, 0x0123456789ABCDEF, -0x0123456789ABCDEF,
              123456789012, 2 ** 63 - 1, -2 ** 63 + 1, 0x00FF00FF00FF00FF, -2147483648, -2147483649, -4294967296]
    ints32 = [0, 1, -1, 127, 128, 255, 256, 32767, 32768, 65535, 65536, 2 ** 31 - 1, -2 ** 31 + 1, 0x00FF00FF, -16777216]
    f64 = [0.0, 0.5, 0.1, 1.0 / 3.0, 2.0, 3.141592653589793, 1e100, 1e-100, 123456.789, 4294967295.5, 2147483648.25]
    f32 = [0.0, 0.5, 0.1, 2.0, 3.1415927, 16777217.0, 1e-30]
    lines = ["use std::string::Stringable;", "fn main() {"]
    exp = []

    def lit64(v):
        return "(%d)" % v if v != -2 ** 63 else "(-9223372036854775807 - 1)"
    for v in ints64:
        lines.append("  println(%s.to_string());" % lit64(v))
        exp.append(str(v))
    for v in ints32:
        lines.append("  println((%di32).to_string());" % v)
        exp.append(str(v))
    for v in f64:
        bits = struct.unpack("<q", struct.pack("<d", v))[0]
        r = repr(v)
        if "e" in r or "E" in r:
            continue    # no exponent syntax for float literals
        lines.append("  println(%s.as_int64().to_string());" % r)
        exp.append(str(bits))
    for v in f32:
        r = repr(v)
        if "e" in r:
            continue
        bits = struct.unpack("<i", struct.pack("<f", v))[0]
        lines.append("  println(%sf32.as_int32().to_string());" % r)
        exp.append(str(bits))
    # (Dora literal, expected code point) and (Dora literal, expected UTF-8 length)
    for littxt, cp in (("'a'", 0x61), ("'ä'", 0xe4), ("'€'", 0x20ac), ("'😀'", 0x1f600)):
        lines.append("  println(%s.to_int32().to_string());" % littxt)
        exp.append(str(cp))
    for littxt, n8 in (('""', 0), ('"x"', 1), ('"%s"' % ("a" * 127), 127), ('"%s"' % ("b" * 128), 128), ('"%s"' % ("c" * 300), 300),
                       ('"ä€😀"', 9)):
        lines.append("  println(%s.size().to_string());" % littxt)
        exp.append(str(n8))
    lines.append("}")
    src = os.path.join(scratch, "wire.dora")
    open(src, "w").write("\n".join(lines) + "\n")
    expected = "\n".join(exp) + "\n"
    pkg = os.path.join(scratch, "wire.dora-package")
    p = subprocess.run([os.path.join(bindir, "dora"), "compile", "-c", src, "-o", pkg], stdout=subprocess.PIPE, stderr=subprocess.PIPE,
                       env=tool_env(scratch), timeout=300)
    if p.returncode != 0:
        raise MachineryError("the constants program does not compile: " + p.stderr.decode("utf-8", "replace")[-1500:])
    n = 0
    for backend in ("cannon", "boots"):
        for inp, how in ((src, "source"), (pkg, "package")):
            exe = os.path.join(scratch, "wire-%s-%s" % (backend, how))
            cmd = [os.path.join(bindir, "dora"), "compile", inp, "-o", exe] + (["--cannon"] if backend == "cannon" else [])
            p = subprocess.run(cmd, stdout=subprocess.PIPE, stderr=subprocess.PIPE, env=tool_env(scratch), timeout=600)
            if p.returncode != 0:
                c.violation("c18:wire:compile-failed:%s" % backend, "constants program via %s does not build with %s: %s" % (
                    how, backend, p.stderr.decode("utf-8", "replace")[-300:]), {"part": "wire", "source": open(src).read()})
                continue
            r = subprocess.run([exe], stdout=subprocess.PIPE, stderr=subprocess.PIPE, timeout=120)
            out = r.stdout.decode("utf-8", "replace")
            n += len(exp)
            if r.returncode != 0 or out != expected:
                got, want = out.splitlines(), expected.splitlines()
                first = next((i for i in range(len(want)) if i >= len(got) or got[i] != want[i]), None)
                c.violation("c18:wire:constant-read-back:%s" % backend,
                            "a constant does not survive front end -> %s -> %s generator: line %s is %r, written as %r (source line: %s)" % (
                                how, backend, first, got[first] if first is not None and first < len(got) else None,
                                want[first] if first is not None else None, lines[2 + first].strip() if first is not None else ""),
                            {"part": "wire", "backend": backend, "path": how, "source": open(src).read(), "stdout": out[-2000:], "expected": expected})
    return {"wire_constants": len(exp), "wire_checks": n}


def main(tier):
    c = vcommon.Check("C18", tier, "fault_enumeration")
    # VERIF_C18_PARTS=codec[,twin,program,two-paths,damage] restricts a run to some parts (debugging aid; the evidence then
    # says so and is marked non-exhaustive)
    parts = [p for p in os.environ.get("VERIF_C18_PARTS", "codec,twin,program,two-paths,damage").split(",") if p]
    harness = build_harness()
    need_tools = any(p in parts for p in ("program", "two-paths", "damage"))
    bindir = vcommon.build_plain(need_boots=True) if need_tools else None
    scratch = vcommon.scratch_dir("c18")
    try:
        t = [time.time()]

        def lap(what):
            t.append(time.time())
            vcommon.log("c18: %s %.1fs" % (what, t[-1] - t[-2]))
        cov1 = {"codec_cases": 0, "codec_nontrivial": 0, "uncovered": []}
        cov2 = {"packages": 0}
        cov3 = {"two_path_comparisons": 0}
        cov4 = {"truncation_points": 0, "bit_flips": 0, "tool_runs": 0}
        samples, dsamples, pkgs, skipped = [], [], [], []
        if "codec" in parts:
            cov1, samples = part_codec(c, harness, tier)
            lap("codec")
        twin_thread = None
        twin_result = {}
        if "twin" in parts:
            # the Dora reader is Dora code compiled by the baseline generator either way; the toolchain without debug
            # assertions builds and runs the 370 unit tests of the boots package several times faster.
            # Runs beside the program/two-path parts (one core).
            import threading
            fastdir = vcommon.build_fast(need_boots=False)

            def twin_work():
                try:
                    twin_result["cov"], twin_result["viols"] = part_twin(c, harness, fastdir, scratch, tier)
                except BaseException as e:  # re-raised in the main thread
                    twin_result["exc"] = e
            twin_thread = threading.Thread(target=twin_work)
            twin_thread.start()
        if need_tools:
            pkgs, skipped = make_packages(c, bindir, scratch, tier)
            lap("packages (%d)" % len(pkgs))
        if "program" in parts:
            cov2 = part_program(c, harness, pkgs, scratch)
            lap("program codec")
        if "two-paths" in parts:
            cov3 = part_two_paths(c, bindir, pkgs, scratch, tier)
            cov3.update(part_wire(c, bindir, scratch, tier))
            lap("two paths + wire constants")
        if "damage" in parts:
            cov4, dsamples = part_damage(c, harness, bindir, pkgs, scratch, tier)
            lap("damage")
        cov5 = {"twin_cases": 0}
        if twin_thread:
            twin_thread.join()
            if "exc" in twin_result:
                raise twin_result["exc"]
            cov5 = twin_result["cov"]
            for key, what, rp in twin_result["viols"]:
                c.violation(key, what, rp)
            lap("twin (joined)")
        if tier == "thorough" and cov1["uncovered"]:
            raise MachineryError("emit methods in writer.rs that the codec driver does not drive: %s" % cov1["uncovered"])
        faults = cov4["truncation_points"] + cov4["bit_flips"]
        cov = {}
        cov.update(cov1)
        cov.update(cov2)
        cov.update(cov3)
        cov.update(cov4)
        cov.update(cov5)
        cov.update({
            "evaluations": cov1["codec_cases"] + cov5["twin_cases"] + cov2["packages"] + cov3["two_path_comparisons"] + faults + cov4["tool_runs"],
            "fault_points_enumerated": faults,
            "distinct_nontrivial": cov1["codec_nontrivial"] + faults,
            "rule": "codec: the product space declared in engines/seqmc/src/codec.rs::categories (every emit method x all "
                    "combinations of boundary operands, every ordered pair of the instruction kinds x 3x3 operand widths, "
                    "forward/backward jumps and loops over the listed paddings, jump tables of 0..300 targets, every "
                    "constant-pool kind x id/size boundary x pool position, register-file and code sizes), enumerated "
                    "completely; non-trivial = cases with at least one multi-byte operand or a jump. damage: every index "
                    "of the declared windows/strides in damage_plan (truncation: every shorter length; flip: every single "
                    "bit) decoded by the real decoder; each fault point is distinct and non-trivial (the file differs from "
                    "the original). Every distinct decoder outcome class and every 128th/256th case additionally goes "
                    "through the real code generator processes.",
            "samples": samples[:6] + dsamples,
            "exhaustive": len(parts) == 5,
            "parts_run": parts,
            "package_names": [e["name"] for e in pkgs][:40],
            "corpus_files_not_standalone": len(skipped),
            "address_space_limit_bytes": AS_LIMIT,
        })
        c.coverage = cov
        c.assumptions = [
            "operands above 2^32-1 are out of scope (the encoding is defined for 32-bit values; Register is a usize)",
            "a damaged file that still decodes AND re-encodes to exactly the damaged bytes (or differs only in one integer "
            "spelled wider than necessary, which the serialization format permits) is a valid encoding of another program; "
            "the property cannot demand its refusal (no checksum), only that no tool crashes on it",
            "decoder shards and code generators run under an address-space limit of 2 GiB; dying on a failed allocation "
            "counts as a crash only when the real code generator process dies on the same bytes",
            "program equality is observed through the derived Debug text, the repository's bytecode dumper and the encoded bytes",
        ]
        return c.finish()
    finally:
        shutil.rmtree(scratch, ignore_errors=True)


def replay(path):
    r = json.load(open(path))
    part = r.get("part")
    harness = build_harness()
    scratch = vcommon.scratch_dir("c18r")
    try:
        if part == "codec":
            rep = seq.run_seqmc(harness, "codec", {"case": r["example"]})
            bad = rep["findings"]
            for k, f in bad.items():
                print("VIOLATION property=C18 replay=%s\n  key=%s :: %s" % (path, k, f["detail"][:400]))
            print("case: %s" % r["example"][:400])
            if not bad:
                print("case now reads back as emitted")
            return 1 if bad else 0
        if part == "twin":
            cov, viols = part_twin(None, harness, vcommon.build_fast(need_boots=False), scratch, "quick", case=r["example"])
            for key, what, _ in viols:
                print("VIOLATION property=C18 replay=%s\n  key=%s :: %s" % (path, key, what[:600]))
            if not viols:
                print("both readers agree on: %s" % r["example"][:300])
            return 1 if viols else 0
        bindir = vcommon.build_plain(need_boots=True)
        ent = {"name": r["name"], "src": r["src"], "mode": r["mode"], "text": r.get("text")}
        made = None
        if ent["text"] is not None and not os.path.exists(ent["src"]):
            # generated program: the package embeds the path of its source, so put it where it was
            top = os.path.dirname(os.path.dirname(ent["src"]))
            made = top if not os.path.exists(top) else None
            os.makedirs(os.path.dirname(ent["src"]), exist_ok=True)
            open(ent["src"], "w").write(ent["text"])
        try:
            ent["pkg"], err = compile_package(bindir, scratch, ent)
        finally:
            if made:
                shutil.rmtree(made, ignore_errors=True)
        if ent["pkg"] is None:
            raise MachineryError("cannot rebuild the package: " + err)
        ent["size"] = os.path.getsize(ent["pkg"])
        if r.get("package_sha256") and sha(ent["pkg"]) != r["package_sha256"]:
            print("note: the rebuilt package differs from the recorded one (the tree changed); indices may have moved")
        if part == "program":
            lst = os.path.join(scratch, "one.tsv")
            open(lst, "w").write("%s\t%s\t%s\t%s\n" % (ent["name"], ent["pkg"], ent["src"], ent["mode"]))
            rep = seq.run_seqmc(harness, "pkg", {"list": lst})
            for k, f in rep["findings"].items():
                print("VIOLATION property=C18 replay=%s\n  key=%s :: %s" % (path, k, f["detail"][:400]))
            if not rep["findings"]:
                print("package of %s survives the round trip" % ent["name"])
            return 1 if rep["findings"] else 0
        if part == "two-paths":
            problem, _ = two_paths_one(bindir, scratch, ent, r["backend"], r["gc"], r["full"], r.get("target"))
            if problem:
                print("VIOLATION property=C18 replay=%s\n  key=%s :: %s" % (path, r.get("key"), problem))
                return 1
            print("both paths agree for %s" % ent["name"])
            return 0
        if part == "damage":
            orig = open(ent["pkg"], "rb").read()
            mode, idx = r["damage"], r["index"]
            data = damaged_bytes(orig, mode, idx)
            wd = os.path.join(scratch, "dmg")
            os.makedirs(wd)
            p = subprocess.run(limited([harness, "damage", "--pkg", ent["pkg"], "--mode", mode, "--indices", str(idx), "--explain", "1",
                                        "--out", os.path.join(wd, "res.tsv")]), stdout=subprocess.DEVNULL, stderr=subprocess.PIPE,
                               env=dict(os.environ, SEQMC_OUT=os.path.join(wd, "rep.json"), RUST_BACKTRACE="0"))
            said = p.stderr.decode("utf-8", "replace").strip()
            cls = None
            if os.path.exists(os.path.join(wd, "res.tsv")):
                for line in open(os.path.join(wd, "res.tsv")):
                    cls = line.rstrip("\n").split("\t", 1)[1]
            print("package %s (%d bytes), %s at %d" % (ent["name"], len(orig), mode, idx))
            print("decoder: %s" % (said[-600:] if said else cls))
            c = vcommon.Check.__new__(vcommon.Check)
            c.violations, c.known = [], vcommon.Known("none")
            c.replay_path = lambda name: os.path.join(scratch, name)
            if cls is None:
                cls = "died:exit%s" % p.returncode
            tools = [r["tool"]] if r.get("tool") else ["cannon", "boots", "driver"]
            bad = cls == "ok-diff" or cls.startswith("panic:") or (mode == "trunc" and not cls.startswith(("err:", "died:")))
            for tool in tools:
                res = run_tool(bindir, tool, ent, data, scratch, "replay-" + tool)
                print("%s: %s %s" % (tool, res["kind"], res["detail"] or res.get("first", "")))
                if cls.startswith("died:"):
                    if res["kind"] in ("alloc-abort", "signal", "panic", "timeout"):
                        bad = True
                else:
                    judge(c, ent, mode, idx, cls, tool, res, {})
            if bad or c.violations:
                print("VIOLATION property=C18 replay=%s\n  key=%s :: still fails" % (path, r.get("key")))
                for k, what, _ in c.violations:
                    print("  key=%s :: %s" % (k, what))
                return 1
            print("damaged package is now handled as the property demands")
            return 0
        print(json.dumps(r, indent=1)[:3000])
        return 0
    finally:
        shutil.rmtree(scratch, ignore_errors=True)
