"""C04 -- no managed thread runs while the world is stopped.
Model checking (loom, DPOR over all interleavings up to a preemption bound) of the REAL protocol code of
dora-runtime (threads.rs, safepoint.rs, gc.rs::collect_garbage) through the cfg-gated sync shim."""
import vcommon, schedrun

TWO = ["stw2", "stw2-native-rounds"]
THREE = ["stw3", "stw3-two-requests", "stw3-native", "stw3-start", "stw3-exit-join", "gc3-coalesce", "gc3-forced", "stw3-rearm"]
FOUR = ["stw4"]


def main(tier):
    c = vcommon.Check("C04", tier, "model_checking")
    b = schedrun.build_sched()
    # (model, quick bound, thorough bound); None = no preemption bound (all schedules)
    table = [("stw2", None, None), ("stw2-native-rounds", 6, 9)]
    table += [(m, 3, 5) for m in THREE]
    table += [(m, 2, 3) for m in FOUR]
    cap = 240 if tier == "quick" else 3000
    jobs = [dict(family="stw", model=m, bound=(q if tier == "quick" else t), max_seconds=cap) for m, q, t in table]
    bounds = {m: (q if tier == "quick" else t) if (q if tier == "quick" else t) is not None else "unbounded" for m, q, t in table}
    results = schedrun.run_models(b, jobs)
    agg = schedrun.absorb(c, b, results, "C04")
    c.coverage = {
        "states": agg["distinct_traces"],
        "transitions": agg["scheduling_points"],
        "traces_validated_against_impl": agg["executions"],
        "evaluations": agg["executions"],
        "distinct_nontrivial": agg["distinct_traces"],
        "samples": [{"model": r["model"], "bound": r["bound"], "result": r.get("result")} for r in results[:6]],
        "rule": "execution = one complete interleaving of a scenario (2-4 registered DoraThreads running scripts of "
                "poll / heap access / native call / stop-the-world / collection request / thread start / join / exit) of the "
                "real runtime code under loom; states = distinct (thread, operation, object) traces over the shim's mutex, "
                "condvar and atomic operations; transitions = scheduling points. Oracles: loom's access tracking on the heap "
                "cells (nobody touches the heap during the operation or without happens-before to it), the runtime's own "
                "asserts, every listed thread Safepoint/ParkedSafepointRequested during the operation, loom deadlock and "
                "branch-limit (livelock) detection, final heap contents, empty thread list, one epoch per collection.",
        "exhaustive": not agg["incomplete"],
        "preemption_bounds": bounds,
        "incomplete_models": agg["incomplete"],
        "models": len(results),
        "distinct_outcomes": agg["outcomes"],
    }
    c.assumptions = ["the safepoint poll is modelled at harness level as compiled code performs it (state byte != Running -> slow path)",
                     "memory orderings weaker than what loom models are not explored; std atomics outside the shim (thread ids, "
                     "TLAB words, epoch) are not scheduling points",
                     "the real code is executed: every explored trace is an implementation trace"]
    return c.finish()


def replay(path):
    return schedrun.replay(path)
